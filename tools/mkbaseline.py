#!/usr/bin/env python3
"""Record the obligation count of every job of the evidence files as the coverage baseline (run after a clean run
of a tier on the unchanged tree): tools/mkbaseline.py"""
import glob
import json
import os

HERE = os.path.dirname(os.path.dirname(os.path.abspath(__file__)))
path = os.path.join(HERE, "coverage_baseline.json")
try:
    base = json.load(open(path))
except (OSError, ValueError):
    base = {}
for fn in sorted(glob.glob(os.path.join(HERE, "evidence", "C*.json"))):
    ev = json.load(open(fn))
    jobs = {j["name"]: j.get("obligations") or 0 for j in ev["coverage"]["jobs"] if j.get("expect") != "cex"}
    base.setdefault(ev["property_id"], {})[ev["tier"]] = jobs
json.dump(base, open(path, "w"), indent=0, sort_keys=True)
print({p: {t: len(j) for t, j in v.items()} for p, v in base.items()})
