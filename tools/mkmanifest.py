#!/usr/bin/env python3
"""Regenerate MANIFEST.json from the table below (keeps it valid at all times)."""
import json, os, sys
HERE = os.path.dirname(os.path.dirname(os.path.abspath(__file__)))
sys.path.insert(0, HERE)

TECH = "symbolic execution of the real iodata functions on z3 terms (own engine symx: Sym values in numpy object arrays, solver-decided forks, obligations discharged by z3; counterexamples replayed on the unpatched code)"

CLAIMED = {
    "C20": dict(
        text="Bounded symbolic model checking: utils.volume, set_four_index_element, check_dm and derive_naturals are executed on z3 terms; volume for all real cell vectors (1-3 vectors), the eight-fold symmetric assignment for all integer index quadruples, check_dm for all occupations/eps/occ_max with n<=3, derive_naturals set-up for n<=3 and full semantics for n=1 with eigh replaced by its contract.",
        note="Exact real arithmetic instead of IEEE doubles; scipy.linalg.eigh trusted via its documented contract; matrix sizes >= 4 and LAPACK outside the claim.",
        ref="4/C20"),
}

CLAIMED["C12"] = dict(
    text="Bounded symbolic model checking of MolecularOrbitals and Shell: all real occupation vectors and occs_aminusb for restricted/unrestricted/generalized orbitals with up to 2 (thorough 3) orbitals per spin, every assignment sequence of length <= 2 (3) over occs/occsa/occsb/occs_aminusb incl. wrong-length vectors; after each step z3 proves occsa+occsb=occs, nelec, spinpol=|na-nb|, read-back and other-spin-unchanged; views, generalized refusals, constructor rejections and the Shell function-count formula for l<=9.",
    note="Exact reals; numpy replaced by symnp in iodata.orbitals/attrutils/basis; longer histories and more orbitals outside.",
    ref="4/C12")

CLAIMED["C11"] = dict(
    text="Bounded symbolic model checking of IOData: construction with argument subsets followed by every operation sequence up to depth 2 (thorough: all 128 subsets, depth 3) over assign/clear/read operations on atnums, atcorenums, charge, nelec, spinpol, mo and per-atom arrays of 2 and 3 atoms; for all real values z3 proves charge=sum(core)-nelec, read-back, default core charges, orbital-derived nelec/spinpol, per-atom agreement, TypeError-and-unchanged for inconsistent assignments, idempotent reads.",
    note="Exact reals; numpy replaced by symnp in iodata.iodata/attrutils/orbitals; longer histories outside; one recorded finding (stale cached default core charges).",
    ref="4/C11")

CLAIMED["C10"] = dict(
    text="Bounded symbolic model checking of convention conversion: the real _convert_convention_shell on label lists with symbolic identities and sign bits (n<=3, thorough 4; all set partitions arise as solver-decided forks) and symbolic coefficient vectors: signed-permutation law, rejection iff the conventions do not name the same functions, reverse flag is the inverse, A->B->C = A->C; convert_conventions for every ordered pair (and chosen triples) of the built-in tables on all shared shell types with offsets across shells and generalized contractions; table well-formedness and documented orders; all single-label corruptions rejected.",
    note="Labels modelled as (identity, sign) pairs; n>4 symbolic labels outside; documented orders transcribed by hand in specs/conventions_ref.py.",
    ref="4/C10")
CLAIMED["C14"] = dict(
    text="Bounded symbolic model checking of convert_to_segmented / convert_to_unrestricted / prepare_segmented / prepare_unrestricted_aminusb: for all real exponents, contraction coefficients, occupations, occs_aminusb, MO coefficients and energies z3 proves the list of basis-function expansions (in linearly independent normalised primitives) is unchanged and in the same order, alpha/beta occupations, coefficients, energies, irreps, alpha and beta density matrices (as polynomials), nelec and spinpol are preserved; idempotence, identity short-cuts, rejection of generalized orbitals, warning/error contract of prepare_*.",
    note="Shell structure menus are finite (1-3 shells, up to 3 (thorough 5) contractions, up to 3 (4) orbitals); exact reals.",
    ref="4/C14")

CLAIMED["C17"] = dict(
    text="Symbolic execution of api._select_format_module (and the public load/dump entry points up to the first file access) on ONE symbolic file name of unbounded length (SMT strings f = d ++ b, decided by cvc5/z3 QF_SLIA): for every solver-feasible path the chosen module has a pattern matching the base name and supports the operation, FileFormatError arises only when no module qualifies and before any open(), the bare base name gives the same choice; explicit formats win without looking at the name; unknown/unsupported formats raise before any file access; input-module selection; every declared attribute name of all 25 modules exists on IOData.",
    note="os.path.basename modelled by its documented contract; fnmatch replaced by a glob->SMT-atom translation validated against fnmatch on concrete names at every run; 'guaranteed' lists are checked by the loading harnesses, 'required' enforcement by C08.",
    technique="symbolic execution of the real selection code on an SMT string variable; branch feasibility and obligations decided by cvc5 1.0 / z3 (QF_SLIA), counterexample names replayed on the real API",
    ref="4/C17")

CLAIMED["C19"] = dict(
    text="Bounded symbolic model checking of api.write_input -> inputs.gaussian/orca -> write_input_base: coordinates, charge and spin polarisation are symbolic reals (charge/spin also derived from orbitals with symbolic occupations), they travel through str.format as placeholder tokens; an independent template-driven parser reads the written text and z3 proves, per path, one geometry line per atom in order with the reference element symbol, coordinate = x/angstrom (CODATA, 1e-7), charge = nearest integer, multiplicity = nearest integer of |spinpol| + 1, documented defaults, run-type keywords, precedence of keyword fields, FileFormatError / WriteInputError classes.",
    note="1, 2 and 40 (thorough 200) atoms with two symbolic probe atoms; coordinates assumed to fit the 10.6f column; digit-level rounding idealised.",
    ref="4/C19")
CLAIMED["C18"] = dict(
    text="Symbolic execution of __main__.convert with the four API functions replaced by uninterpreted functions: for all file names, optional formats and both boolean flags z3 (EUF) proves the single effect term equal to dump_x(load_x(in, fmt=i), out, allow_changes=c, fmt=o); main() over all 16 option subsets x spellings x argument orders reaches the same composition; API exceptions escape convert() and no dump follows a failed load.",
    note="Subprocess, exit-status mapping and argparse internals trusted; byte equality of output relies additionally on C16/C08.",
    technique="symbolic execution of the real convert()/main() with the API as uninterpreted functions; equality of effect terms decided by z3 (EUF)",
    ref="4/C18")

CLAIMED["C06"] = dict(
    text="Symbolic execution of the overlap code: (A) the real 1-D kernel equals the Obara-Saika Gaussian moment for all real x1, x2, two_at and all n1, n2 <= 7 (polynomial identity by canonical form); (B) gob_cart_normalization gives N >= 0 with N^2 * integral = 1 for every power triple l <= 4 (thorough 7) and all real exponents; (C) every entry of the Cartesian-to-pure tables l <= 7 equals the exact algebraic coefficient of an independently generated real solid harmonic (rational arithmetic, 4 ulp); (D) the real compute_overlap on one centre with a symbolic exponent (unit diagonal, exact Cartesian off-diagonals, orthonormal pure shell) and on two centres with symbolic coordinates and contraction coefficients (exp uninterpreted): symmetry, transposition, translation invariance, signed permutation under conventions; rejection of unsupported input.",
    note="Exact reals; sqrt via auxiliary variables, exp uninterpreted with monotonicity instances; screening threshold only through the branch taken; positive semidefiniteness not separately decided.",
    technique="symbolic execution of the real numpy code on z3 terms; identities decided by polynomial canonical form (reciprocal / square-root rewrite rules from the path condition) and by z3 (NRA, EUF) otherwise",
    ref="4/C06")

CLAIMED["C02"] = dict(
    text="Bounded symbolic model checking of save-then-reload through the real API for XYZ (incl. user-defined atom columns), PDB, MOL2, SDF, POSCAR, Cube and FCIDUMP: every real attribute the format stores is a symbolic term that travels through the written text as a placeholder token of the exact printed width (one field per record may fill its column); z3 proves the reloaded attributes equal to the dumped ones (POSCAR up to the documented grouping by element), discrete data compared exactly; sizes cross the field-width boundaries (100/999/1000/12000 atoms) with symbolic probe atoms.",
    note="Wavefunction formats (FCHK, Molden, Molekel, WFN, WFX) and QCSchema are exercised by the C01 harnesses / not yet by this check; values overflowing their column and digit-level rounding outside; one recorded finding (PDB default atom names overflow).",
    ref="4/C02")
CLAIMED["C15"] = dict(
    text="Same symbolic objects and formats as C02 taken through three dump/load generations with the real API: z3 proves the generation-3 object equal to the generation-2 object attribute by attribute (dtype, None-ness, dictionary keys, values as terms) and the generation-3 text identical to the generation-2 text token for token.",
    note="Digit-level drift of float formatting is abstracted (numbers are exact terms); wavefunction formats and QCSchema not yet covered by this check.",
    ref="4/C15")
CLAIMED["C09"] = dict(
    text="Deep snapshots (array contents as z3 terms, dictionary structure, identities of members) of the object passed to dump_one (7 formats, C02 menus) and write_input (2 programs) are proved equal before and after the call for all symbolic values; dump_one returns the very object.",
    note="allow_changes conversions of wavefunction objects are covered by C14 (equivalence of the converted object) and the C01 harnesses; QCSchema provenance not yet covered here.",
    ref="4/C09")

CLAIMED["C08"] = dict(
    text="Exhaustive exploration of the real api.dump_one / dump_many / write_input under nondeterministic environment stubs (in-memory file system recording open/truncate/write/close events, fault at the k-th write, un-openable target): all 13+4 formats x every non-empty realisable subset of required attributes set to None x allow_changes x target absent/pre-existing; every prepare_dump rejection reason; faulty frame at index 0/1/2 with list and generator iterables; empty sequences; unknown/unsupported formats. Obligations: exception class per contract, no file-system event before a pre-flight error and the old bytes intact, later-frame errors propagate, every opened file is closed; the FCHK aufbau rejection is decided by z3 for all symbolic alpha/beta occupations (n<=2, thorough 3).",
    note="The input space is discrete apart from the FCHK occupations: the forks are the quantifier; OS-level faults other than failing write()/open() outside.",
    technique="symbolic exploration of the real API code under nondeterministic environment stubs (choice forks), event-trace obligations; z3 for the occupation-dependent FCHK pre-flight check",
    ref="4/C08")

CLAIMED["C03"] = dict(
    text="Symbolic execution of the real readers (load_one/load_many) of SDF, PDB, GRO, MOL2, XYZ, extended XYZ, POSCAR, CHGCAR, LOCPOT, Cube, CHARMM crd and FCIDUMP on files produced by independent writers that follow the published layouts (specs/layouts.py): every numeric field is a symbolic term carried by a placeholder token of the exact printed width (one field per record may fill its column so that neighbouring fields touch), bond partners / CONECT serials are symbolic integers; z3 (and polynomial canonical forms for unit factors) proves every loaded value equal to the model value under the layout: units, index bases, per-atom attachment, grid index order, chemists'->physicists' 8-fold unpacking, direct/cartesian coordinates, scale factors.",
    note="Other readers (fchk, gaussianlog, gamess, orca/qchem/cp2k logs, mwfn, wfn, wfx, molden, molekel, QCSchema) have no independent layout writer here; float32 storage precision and Fortran D exponents outside; unit constants themselves are the subject of C04; one recorded finding (PDB CONECT serial mapping).",
    ref="4/C03")
CLAIMED["C13"] = dict(
    text="Symbolic execution of api.dump_many / load_many and the frame loops of XYZ, PDB, MOL2 and SDF on 1-3 (thorough 5) frames with differing atom counts and fully symbolic numbers: load_many(dump_many(frames)) yields the same number of frames, each equal (as terms) to a per-frame dump_one + load_one; generators are pulled lazily, once, in order, and an iterator error propagates; every truncation at a line boundary yields only complete frames (or warns/raises); a corrupted numeric field in any frame raises LoadError after exactly the preceding frames; GRO, extended-XYZ and XYZ multi-frame files from independent writers are covered by the C03 harness.",
    note="More than 5 frames, byte-level truncation and multi-field corruption outside; FCHK optimisation/IRC trajectories not covered.",
    ref="4/C13")

CLAIMED["C04"] = dict(
    text="(1) The unit constants of iodata.utils lie within 1e-7 (relative) of independently stated CODATA 2018 and 2022 values. (2) The real readers of GAMESS punch, ORCA/CP2K/Q-Chem logs, Gaussian input, MWFN, CHARMM, GROMACS, FCHK, WFN, WFX, extended XYZ and QCSchema are executed symbolically on tokenised corpus files (every decimal number of a fixture becomes a symbolic term): each element of a dimensional attribute must have the canonical form (unit factor) x (one file number) with the CODATA-consistent factor of the unit the format prescribes. (3) The layout-writer files of C03 are checked against CODATA-2018 constants with tolerance 1e-7, and writers follow from C02 (reader o writer = identity).",
    note="Elements that are not affine in one file number are reported as undecided; molden/molekel units belong to C05; four recorded findings (masses left in amu by the GAMESS, Q-Chem and QCSchema readers, Q-Chem multipoles in Debye) that the pinned test suite prevents from being repaired.",
    technique="symbolic execution of the real readers on tokenised corpus files; unit factors read off the canonical polynomial form of the loaded terms and compared with CODATA intervals",
    ref="4/C04")

CLAIMED["C01"] = dict(
    text="Bounded symbolic model checking of wavefunction conversion through api.dump_one for FCHK, Molden, Molekel, WFN and WFX: objects with 2 atoms (incl. an ECP centre), shell lists s+p / three shells in unsorted centre order / Cartesian d / pure d / SP / generalized, conventions = the target's own, HORTON2 and reversed+sign-flipped, restricted closed-shell / ROHF / unrestricted orbitals, allow_changes in {False, True}; all MO coefficients, energies, contraction coefficients and coordinates symbolic. The real prepare_dump, convert_conventions, writers and readers run on terms; the reloaded object is compared with the source as functions of space through expansions in linearly independent normalised primitives (z3 + canonical forms): nuclei, per-orbital function, occupation, energy, spin; a written file must be readable.",
    note="Decoder = the real reader (writer and reader wrong in the same way are not separated); Molden/Molekel reload with the normalisation gate opened and concrete geometry/contractions; FCHK density matrices, >4 shells, l>2 (quick) outside; three recorded Molekel findings.",
    ref="4/C01")

CLAIMED["C16"] = dict(
    text="Inductive global-state invariant: every module-level data object reachable from iodata.* (periodic and bond tables, all convention dictionaries, format/input registries, STRTOBOOL, unit constants) plus the numpy error state and the warning filters equals its snapshot before and after each API harness of a pool covering load_one/load_many/dump_one/dump_many/write_input of 20+ format paths including failing calls, on every symbolically explored path; since the invariant pins the state, any sequential history is a sequence of such steps. In addition A;B;A histories are executed on one path and the files written by the two runs of A are proved identical token for token.",
    note="Thread interleavings are outside (no engine here models CPython scheduling; stated in DESIGN.md); state outside the enumerated module globals is only covered through the A;B;A comparison.",
    technique="symbolic exploration of the real API calls with a global-state monitor (inductive invariant) and term-level comparison of outputs across A;B;A histories",
    ref="4/C16")

CLAIMED["C05"] = dict(
    text="Symbolic execution of molden._fix_molden_from_buggy_codes (shared by the Molden and Molekel readers) with compute_overlap, _is_normalized_properly and every _fix_* helper on one-centre bases of one-primitive shells (s, p, Cartesian d/f, pure d/f/g) encoded as standard / ORCA / PSI4<=1.0 / Turbomole / CFOUR 2.1 / unnormalised contractions / PSI4<=1.3.2 / corrupted; exponents symbolic for s and p shells (all reals in [0.2, 30]; the norm-test branches are decided by z3 on polynomial inequalities with sqrt auxiliaries), rational grid otherwise; obligations: a standard file takes the no-correction path, the warning names the correction, the returned basis and coefficients denote the true orbitals up to the resolution of the norm test, an unrepairable file raises LoadError.",
    note="Multi-centre molecules and contracted shells through the cascade are outside (exp of symbolic distances in branch conditions); the vendor table is transcribed from the comments/issues quoted in molden.py (no independent public specification exists offline).",
    ref="4/C05")
CLAIMED["C07"] = dict(
    text="(funnel) the real api.load_one/load_many run with the format module replaced by a nondeterministic stub (reads 0-2 lines, then returns valid / shape-inconsistent data, yields 0-2 frames, or raises one of 12 exception kinds; consumers exhaust or break-and-close): only LoadError escapes, its message names the file and the last line read, the file is closed. (parsers) the real readers of 28 fixture files of 24 formats run on tokenised text (every decimal number symbolic) under a fault model: nondeterministic end of file at every line boundary of the first 60 (thorough 400) lines, and one numeric field replaced by non-numeric / empty / absurdly large text: every path ends in LoadError naming the file or in an object with mutually consistent shapes, and the file is closed.",
    note="Byte-offset truncation, binary garbage, multi-line mutations and the full 11 MB corpus are outside; termination only up to the step budget.",
    technique="symbolic exploration of the real loaders under nondeterministic environment stubs (exception/EOF/corruption choices) with symbolic file numbers; obligations on outcome class, message and event trace",
    ref="4/C07")

NOT_YET = "check not built yet in this round (planned, see DESIGN.md section 4)"
NA = {}


# ---- later coverage: keep the level texts in step with what the harnesses run -------------------------------------
CLAIMED["C02"]["text"] = CLAIMED["C02"]["text"].replace(
    "for XYZ (incl. user-defined atom columns), PDB, MOL2, SDF, POSCAR, Cube and FCIDUMP:",
    "for all 13 read/write formats - XYZ (incl. user-defined atom columns), PDB, MOL2, SDF, POSCAR, Cube, FCIDUMP, FCHK (every "
    "optional section), WFN, WFX, Molden, Molekel and QCSchema molecules:")
CLAIMED["C02"]["note"] = ("Wavefunction formats use small bases (s/p/d shells, 2 atoms; C01 varies bases and conventions); values "
                          "overflowing their column and digit-level rounding outside; recorded findings: PDB default atom names overflow, "
                          "FCHK objects without basis/orbitals, FCHK ROHF total density, FCHK lot with a blank, WFX lot.")
CLAIMED["C15"]["note"] = "Digit-level drift of float formatting is abstracted (numbers are exact terms); sizes <= 1000 atoms in the quick tier; QCSchema provenance is the documented exception."
CLAIMED["C03"]["text"] = CLAIMED["C03"]["text"].replace(
    "Cube, CHARMM crd and FCIDUMP on files",
    "Cube, CHARMM crd, FCIDUMP, WFN, WFX, FCHK (single point and Opt/IRC trajectories), Molden, Molekel, MWFN, Gaussian input and "
    "Gaussian log integral dumps on files")
CLAIMED["C03"]["note"] = ("gamess, orca/qchem/cp2k logs and QCSchema have no independent layout writer here (free-form program output; their unit "
                          "handling is checked on the tokenised corpus in C04); float32 storage precision and Fortran D exponents outside; one "
                          "recorded finding (PDB CONECT serial numbers).")
CLAIMED["C13"]["note"] = "More than 5 frames and multi-field corruption outside; FCHK optimisation/IRC, GRO and extended-XYZ trajectories come from independent layout writers."


def _sync_with_harness():
    """Append the bounds each harness states (the same text that goes into the evidence files)."""
    try:
        import importlib
        for pid, c in CLAIMED.items():
            meta = importlib.import_module(f"harness.c{pid[1:]}").META
            b = meta.get("bounds", {})
            c["text"] = c["text"].rstrip() + f" BOUNDS AS RUN - quick: {b.get('quick', '')} | thorough: {b.get('thorough', '')}"
            c["note"] = c["note"].rstrip() + " OUTSIDE THE CLAIM: " + "; ".join(meta.get("outside", []))
    except ImportError as exc:          # run with /verif/.venv/bin/python (numpy, z3) to pick the harness texts up
        print("warning: harness modules not importable, bounds not appended:", exc)


def main():
    _sync_with_harness()
    props = [json.loads(l)["id"] for l in open(os.path.join(HERE, "properties.jsonl"))]
    checks = []
    for pid in props:
        if pid in CLAIMED:
            c = CLAIMED[pid]
            checks.append(dict(
                property_id=pid,
                quick_cmd=f"./check {pid} quick",
                thorough_cmd=f"./check {pid} thorough",
                evidence_file=f"/verif/evidence/{pid}.json",
                replay_cmd_template="./check --replay {path}",
                engine="symx",
                level_claimed=dict(category="model_checking", text=c["text"], design_ref=c["ref"]),
                level_note=c["note"],
                technique=c.get("technique", TECH),
            ))
    na = [dict(property_id=p, reason=NA.get(p, NOT_YET)) for p in props if p not in CLAIMED]
    m = dict(
        version=1,
        setup_cmd="./setup.sh",
        hooks=dict(guard="IODATA_VERIF", enable="no source hooks: stubs are injected into module namespaces at run time from /verif",
                   baseline_off_cmd="cd /repo && /venv/bin/python -m pytest -ra -q -p no:cacheprovider --timeout=900 --continue-on-collection-errors",
                   source_commits=[], add_only=True),
        engines=[dict(name="symx", path="/verif/symx", serves_properties=sorted(CLAIMED),
                      kind_free_text="symbolic shadow execution of numpy code with z3 (path exploration by re-execution, placeholder tokens through text files, namespace stubs)")],
        checks=checks,
        notes="Exit codes: 0 = no replay-confirmed violation (gaps are visible in the evidence: undischarged, aborted, unreproduced), 1 = replay-confirmed violation not listed in known_findings.json, 3 = framework crash.",
        not_applicable=na,
    )
    with open(os.path.join(HERE, "MANIFEST.json"), "w") as f:
        json.dump(m, f, indent=1)
    print("claimed:", sorted(CLAIMED), "not claimed:", [x["property_id"] for x in na])

if __name__ == "__main__":
    main()
