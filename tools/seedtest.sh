#!/bin/bash
# Self-test: every stored seeded change must be reported by its own property's quick check.
# Each patch is applied in a scratch worktree of /repo (outside /repo and /verif); /repo itself is not touched.
#   tools/seedtest.sh [id ...]
cd "$(dirname "$0")/.." || exit 3
ids=${@:-$(ls seeded)}
scratch=$(mktemp -d /tmp/seedtest.XXXXXX)
fail=0
for id in $ids; do
  prop=${id:0:3}
  wt=$scratch/wt_$id
  git -C /repo worktree add -q --detach $wt HEAD || { echo "$id: cannot create worktree"; fail=1; continue; }
  if ! git -C $wt apply $PWD/seeded/$id/patch.diff 2>/dev/null; then
    echo "$id: patch does not apply on the current tree (stale seed)"
  else
    s=$(date +%s)
    SYMX_REPO=$wt timeout 3000 ./check $prop quick > $scratch/$id.log 2>&1; rc=$?
    n=$(grep -c '^VIOLATION' $scratch/$id.log)
    echo "$id: check $prop exit=$rc violations=$n $(( $(date +%s) - s ))s $([ $rc = 1 ] && echo CAUGHT || echo MISSED)"
    [ $rc = 1 ] || fail=1
  fi
  git -C /repo worktree remove --force $wt
done
git -C /repo worktree prune
rm -rf $scratch
# the evidence files were rewritten by runs against mutated trees: regenerate them from /repo
echo "note: re-run the affected checks against /repo to restore their evidence files"
exit $fail
