#!/bin/bash
# run every claimed quick (or thorough) check and summarise
tier=${1:-quick}
cd "$(dirname "$0")/.."
for p in $(python3 -c "import json;print(' '.join(c['property_id'] for c in json.load(open('MANIFEST.json'))['checks']))"); do
  s=$(date +%s); timeout 7200 ./check $p $tier > /tmp/runall_$p.log 2>&1; rc=$?; e=$(date +%s)
  echo "$p rc=$rc $((e-s))s $(grep -c '^VIOLATION' /tmp/runall_$p.log) viol; $(tail -1 /tmp/runall_$p.log | cut -c1-200)"
done
