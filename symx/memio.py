"""In-memory files for the analysed API (symbolic mode): ``open`` and ``LineIterator`` stand-ins.

Every open/truncate/write/close is recorded as an event in the context (so "the existing file
kept its bytes" or "the file was closed" become facts about the event trace).  Optional
nondeterminism: end-of-file at any ``next()`` (every truncation at a line boundary) and a fault
at the k-th ``write``.
"""

from __future__ import annotations

import io

from iodata.utils import LineIterator

from .core import current


def fs():
    ctx = current()
    f = ctx.scratch.get("memfs")
    if f is None:
        f = ctx.scratch["memfs"] = {}
    return f


class InjectedWriteFault(OSError):
    pass


class MemFile(io.TextIOBase):
    def __init__(self, path, mode):
        self._path = path
        self.mode = mode
        self._chunks = []
        self._closed = False
        ctx = current()
        ctx.event("open", path, mode)
        if "w" in mode:
            fs()[path] = ""          # truncation happens at open
            ctx.event("truncate", path)
        elif "a" in mode:
            self._chunks.append(fs().get(path, ""))

    @property
    def name(self):
        return self._path

    def writable(self):
        return True

    def write(self, s):
        ctx = current()
        n = ctx.scratch.get("nwrite", 0) + 1
        ctx.scratch["nwrite"] = n
        if ctx.scratch.get("write_fault_at") == n:
            ctx.event("write_fault", self._path, n)
            raise InjectedWriteFault(28, "No space left on device (injected)")
        if not isinstance(s, str):
            raise TypeError("write() argument must be str")
        self._chunks.append(s)
        fs()[self._path] = "".join(self._chunks)
        return len(s)

    def close(self):
        if not self._closed:
            self._closed = True
            fs()[self._path] = "".join(self._chunks)
            current().event("close", self._path)

    @property
    def closed(self):
        return self._closed

    def __enter__(self):
        return self

    def __exit__(self, *exc):
        self.close()
        return False


def memopen(path, mode="r", *args, **kwargs):
    path = str(path)
    ctx = current()
    if "r" in mode and "+" not in mode:
        if path not in fs():
            if ctx.scratch.get("memfs_fallthrough", True):
                return open(path, mode, *args, **kwargs)
            raise FileNotFoundError(2, "No such file or directory", path)
        ctx.event("open", path, mode)
        return _MemReader(path)
    if ctx.scratch.get("open_fails"):
        ctx.event("open_fail", path, mode)
        raise PermissionError(13, "Permission denied (injected)", path)
    return MemFile(path, mode)


class _MemReader:
    def __init__(self, path):
        self.name = path
        self._lines = fs()[path].splitlines(keepends=True)
        self._i = 0
        self.closed = False

    def __iter__(self):
        return self

    def __next__(self):
        ctx = current()
        if self.closed:
            raise ValueError("I/O operation on closed file.")
        eof = ctx.scratch.get("eof_nondet")
        if eof is not None and self._i < len(self._lines):
            # nondeterministic truncation at a line boundary: one cut point per path
            if not ctx.scratch.get("eof_taken") and self._i >= eof.get("from", 0):
                if ctx.choice([False, True]):
                    ctx.scratch["eof_taken"] = True
                    ctx.scratch["eof_at"] = self._i
                    self._lines = self._lines[: self._i]
        if self._i >= len(self._lines):
            raise StopIteration
        line = self._lines[self._i]
        self._i += 1
        return line

    def read(self, size=-1):
        rest = "".join(self._lines[self._i:])
        if size is None or size < 0:
            self._i = len(self._lines)
            return rest
        # partial reads (e.g. sniffing the first characters): re-split what is left after the consumed prefix
        out, left = rest[:size], rest[size:]
        self._lines = self._lines[: self._i] + left.splitlines(keepends=True)
        return out

    def seek(self, pos, whence=0):
        if pos != 0 or whence != 0:
            raise OSError("in-memory text file: only seek(0) is supported")
        self._lines = fs()[self.name].splitlines(keepends=True)
        self._i = 0
        return 0

    def tell(self):
        return sum(len(x) for x in self._lines[: self._i])

    def readline(self):
        try:
            return next(self)
        except StopIteration:
            return ""

    def close(self):
        if not self.closed:
            self.closed = True
            current().event("close", self.name)

    def __enter__(self):
        return self

    def __exit__(self, *exc):
        self.close()
        return False


class MemLineIterator(LineIterator):
    """The real LineIterator with its file handle taken from the in-memory file system."""

    def __enter__(self):
        self.fh = memopen(self.filename)
        return self
