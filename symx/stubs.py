"""Run-time namespace stubs: make real iodata modules accept symbolic values.

Nothing in /repo is edited.  Within ``with stubbed(mod, ...)`` the names through which the
module reaches C code that would concretise a Sym are re-bound *in that module's globals*:
the numpy module object (whatever name it is imported under), the builtins float/int/round/abs,
and ``open`` (api, utils).  The previous bindings are restored on exit.
"""

from __future__ import annotations

import contextlib
import sys
import types

import numpy as np

from . import memio
from .core import current
from .symnp import symnp
from .tokens import symabs, symfloat, symint, symround

_BUILTIN_STUBS = {"float": symfloat, "int": symint, "round": symround, "abs": symabs}
_MISSING = object()


def _plan(mod, files):
    plan = {}
    g = vars(mod)
    import json as _json
    from . import symjson
    for name, val in list(g.items()):
        if val is _json:
            plan[name] = symjson
        elif val is np:
            plan[name] = symnp
        elif val is np.linalg:
            plan[name] = symnp.linalg
    for name, stub in _BUILTIN_STUBS.items():
        if name not in g or g[name] in (float, int, round, abs):
            plan[name] = stub
    if files:
        plan["open"] = memio.memopen
    return plan


@contextlib.contextmanager
def stubbed(*mods, files=("iodata.api", "iodata.utils"), extra=None):
    """Install the stubs in the given modules (no-op in concrete mode)."""
    ctx = current()
    if ctx.mode == "conc":
        yield
        return
    saved = []
    mods = list(mods)
    for fname in files or ():
        m = sys.modules.get(fname)
        if m is not None and m not in mods:
            # only ``open`` for the file layer modules unless they were requested explicitly
            saved.append((m, "open", vars(m).get("open", _MISSING)))
            setattr(m, "open", memio.memopen)
    for mod in mods:
        plan = _plan(mod, mod.__name__ in (files or ()))
        for name, stub in plan.items():
            saved.append((mod, name, vars(mod).get(name, _MISSING)))
            setattr(mod, name, stub)
    for (mod, name, val) in (extra or []):
        saved.append((mod, name, vars(mod).get(name, _MISSING)))
        setattr(mod, name, val)
    try:
        yield
    finally:
        for mod, name, old in reversed(saved):
            if old is _MISSING:
                try:
                    delattr(mod, name)
                except AttributeError:
                    pass
            else:
                setattr(mod, name, old)


def iodata_modules(prefixes=("iodata",), exclude=("iodata.test",)):
    out = []
    for name, m in sorted(sys.modules.items()):
        if m is None or not isinstance(m, types.ModuleType):
            continue
        if any(name == p or name.startswith(p + ".") for p in prefixes) and not any(
                name.startswith(e) for e in exclude):
            out.append(m)
    return out
