"""SymStr: a file name of unbounded length as SMT string variables (decided by cvc5, z3 fallback).

The name is ``f = d ++ b`` where ``b`` (the base name) contains no '/' and ``d`` is empty or ends
with '/'.  ``os.path.basename`` is modelled by its documented contract: the *base view* of the
name refers to ``b``.  ``fnmatch`` on a view becomes an SMT-LIB string atom over the corresponding
variable (``str.suffixof`` / ``str.prefixof`` / ``str.contains`` for the simple glob shapes, a
regular-expression membership otherwise).  The path condition of the name is the list of atoms /
negated atoms chosen so far; feasibility of a branch is one QF_SLIA query.
"""

from __future__ import annotations

import fnmatch as _fnmatch
import os
import subprocess
import tempfile
import time

from .core import PathAbort, current

HEAD = ("(set-logic QF_SLIA)\n(declare-fun b () String)\n(declare-fun d () String)\n(declare-fun f () String)\n"
        "(assert (not (str.contains b \"/\")))\n(assert (= f (str.++ d b)))\n"
        "(assert (or (= d \"\") (str.suffixof \"/\" d)))\n")


def smt_lit(s: str) -> str:
    out = []
    for ch in s:
        o = ord(ch)
        if ch == '"':
            out.append('""')
        elif 32 <= o < 127 and ch != "\\":
            out.append(ch)
        else:
            out.append("\\u{%x}" % o)
    return '"' + "".join(out) + '"'


def _unescape(s: str) -> str:
    import re
    s = s.replace('""', '"')
    return re.sub(r"\\u\{([0-9a-fA-F]+)\}", lambda m: chr(int(m.group(1), 16)), s)


def glob_regex(pat: str) -> str:
    """SMT-LIB regex of an fnmatch pattern (posix, case-sensitive)."""
    parts = []
    i, n = 0, len(pat)
    while i < n:
        c = pat[i]
        i += 1
        if c == "*":
            parts.append("re.all")
        elif c == "?":
            parts.append("re.allchar")
        elif c == "[":
            j = i
            if j < n and pat[j] == "!":
                j += 1
            if j < n and pat[j] == "]":
                j += 1
            while j < n and pat[j] != "]":
                j += 1
            if j >= n:
                parts.append(f"(str.to_re {smt_lit('[')})")
            else:
                body = pat[i:j]
                i = j + 1
                neg = body.startswith("!")
                if neg:
                    body = body[1:]
                alts = []
                k = 0
                while k < len(body):
                    if k + 2 < len(body) and body[k + 1] == "-":
                        alts.append(f"(re.range {smt_lit(body[k])} {smt_lit(body[k + 2])})")
                        k += 3
                    else:
                        alts.append(f"(str.to_re {smt_lit(body[k])})")
                        k += 1
                cls = alts[0] if len(alts) == 1 else "(re.union " + " ".join(alts) + ")"
                if neg:
                    cls = f"(re.diff re.allchar {cls})"
                parts.append(cls)
        else:
            # merge literal runs
            j = i
            while j < n and pat[j] not in "*?[":
                j += 1
            parts.append(f"(str.to_re {smt_lit(pat[i - 1:j])})")
            i = j
    if not parts:
        return '(str.to_re "")'
    if len(parts) == 1:
        return parts[0]
    return "(re.++ " + " ".join(parts) + ")"


def glob_atom(pat: str, var: str) -> str:
    """SMT-LIB atom: the string variable matches the glob."""
    special = set("*?[")
    if not (set(pat) & special):
        return f"(= {var} {smt_lit(pat)})"
    if pat.startswith("*") and pat.endswith("*") and len(pat) >= 2 and not (set(pat[1:-1]) & special):
        return f"(str.contains {var} {smt_lit(pat[1:-1])})" if len(pat) > 2 else "true"
    if pat.startswith("*") and not (set(pat[1:]) & special):
        return f"(str.suffixof {smt_lit(pat[1:])} {var})"
    if pat.endswith("*") and not (set(pat[:-1]) & special):
        return f"(str.prefixof {smt_lit(pat[:-1])} {var})"
    return f"(str.in_re {var} {glob_regex(pat)})"


_TMP = None


def _tmpdir():
    global _TMP
    if _TMP is None or not os.path.isdir(_TMP):
        _TMP = tempfile.mkdtemp(prefix="symx-smt-")
    return _TMP


def solve(assertions, want_model=True, timeout_s=3):
    """Decide a QF_SLIA query. Returns (status, name_or_None); status in sat/unsat/unknown."""
    text = HEAD + "".join(f"(assert {a})\n" for a in assertions) + "(check-sat)\n"
    if want_model:
        text += "(get-value (f))\n"
    # paths are explored by re-execution: the queries of a shared prefix recur verbatim
    hit = _SOLVE_CACHE.get(text)
    if hit is not None:
        return hit
    res = _solve_text(text, timeout_s)
    if res[0] != "unknown":
        _SOLVE_CACHE[text] = res
    return res


_SOLVE_CACHE = {}


def _solve_text(text, timeout_s):
    path = os.path.join(_tmpdir(), f"q{os.getpid()}.smt2")
    with open(path, "w") as fh:
        fh.write(text)
    for cmd in (["cvc5", "--strings-exp", "--produce-models", path], ["z3", f"-T:{timeout_s}", path]):
        try:
            r = subprocess.run(["timeout", str(timeout_s)] + cmd, capture_output=True, text=True)
        except OSError:
            continue
        out = r.stdout.strip().splitlines()
        if not out:
            continue
        st = out[0].strip()
        if st == "unsat":
            return "unsat", None
        if st == "sat":
            name = None
            for line in out[1:]:
                if line.strip().startswith("((f "):
                    q = line.strip()[4:-2].strip()
                    if q.startswith('"') and q.endswith('"'):
                        name = _unescape(q[1:-1])
            return "sat", name
    return "unknown", None


class NameState:
    def __init__(self, ctx=None):
        self.asserts = []
        self.decided = {}
        self.queries = 0
        self.qtime = 0.0
        self.unknown = 0

    def _q(self, extra, want_model=False):
        t0 = time.time()
        st, name = solve(self.asserts + list(extra), want_model)
        self.queries += 1
        self.qtime += time.time() - t0
        if st == "unknown":
            self.unknown += 1
        return st, name

    def witness(self):
        st, name = self._q([], True)
        return name if st == "sat" else None

    def subset_of(self, q):
        """Path condition implies q?  (True/False/None, witness name)."""
        st, name = self._q([f"(not {q})"], True)
        if st == "unsat":
            return True, None
        if st == "sat":
            return False, name
        return None, None

    def disjoint_from(self, q):
        st, name = self._q([q], True)
        if st == "unsat":
            return True, None
        if st == "sat":
            return False, name
        return None, None

    def branch(self, atom, key):
        ctx = current()
        if key in self.decided:
            return self.decided[key]
        d = ctx.fork2(lambda: self._q([atom])[0] != "unsat", lambda: self._q([f"(not {atom})"])[0] != "unsat")
        self.asserts.append(atom if d else f"(not {atom})")
        self.decided[key] = d
        return d


class SymStr(str):
    """A symbolic file name (view 'full' -> variable f) or its base name (view 'base' -> b)."""

    def __new__(cls, state, view="full"):
        o = str.__new__(cls, f"<symbolic-{view}-name>")
        o.state = state
        o.view = view
        return o

    @property
    def var(self):
        return "f" if self.view == "full" else "b"

    def __fspath__(self):
        return self

    def __hash__(self):
        return hash(("SymStr", self.view))

    def __eq__(self, other):
        if isinstance(other, SymStr):
            return other.state is self.state and other.view == self.view
        if isinstance(other, str):
            return self.state.branch(f"(= {self.var} {smt_lit(other)})", ("eq", self.view, other))
        return False

    def __ne__(self, other):
        return not self.__eq__(other)

    def _unsupported(self, *a, **k):
        raise PathAbort("unmodelled string operation on a symbolic file name")

    lower = upper = split = rsplit = strip = replace = find = rfind = index = _unsupported
    partition = rpartition = __getitem__ = __add__ = __radd__ = __mod__ = _unsupported

    def endswith(self, suffix):
        return self.state.branch(f"(str.suffixof {smt_lit(suffix)} {self.var})", ("endswith", self.view, suffix))

    def startswith(self, prefix):
        return self.state.branch(f"(str.prefixof {smt_lit(prefix)} {self.var})", ("startswith", self.view, prefix))

    def __contains__(self, sub):
        return self.state.branch(f"(str.contains {self.var} {smt_lit(sub)})", ("contains", self.view, sub))


def sym_basename(p):
    if isinstance(p, SymStr):
        return SymStr(p.state, "base")
    return os.path.basename(p)


def sym_fnmatch(name, pat):
    if isinstance(name, SymStr):
        if not isinstance(pat, str) or isinstance(pat, SymStr):
            raise PathAbort("symbolic pattern")
        return name.state.branch(glob_atom(pat, name.var), ("fnmatch", name.view, pat))
    return _fnmatch.fnmatch(name, pat)


class OsProxy:
    """Stand-in for the ``os`` module inside iodata.api: path.basename by contract."""

    class _Path:
        def __getattr__(self, name):
            return getattr(os.path, name)

        @staticmethod
        def basename(p):
            return sym_basename(p)

    path = _Path()

    def __getattr__(self, name):
        return getattr(os, name)


def validate_translation(patterns, names, timeout_s=120):
    """Model validation: glob_atom agrees with fnmatch.fnmatchcase on concrete names (one cvc5 run)."""
    lines = ["(set-logic QF_SLIA)", "(set-option :incremental true)", "(declare-fun v () String)"]
    expect = []
    for p in patterns:
        for nm in names:
            lines += ["(push 1)", f"(assert (= v {smt_lit(nm)}))", f"(assert {glob_atom(p, 'v')})", "(check-sat)",
                      "(pop 1)"]
            expect.append((p, nm, _fnmatch.fnmatchcase(nm, p)))
    path = os.path.join(_tmpdir(), f"val{os.getpid()}.smt2")
    with open(path, "w") as fh:
        fh.write("\n".join(lines) + "\n")
    r = subprocess.run(["timeout", str(timeout_s), "cvc5", "--strings-exp", "--incremental", path],
                       capture_output=True, text=True)
    got = [ln.strip() for ln in r.stdout.splitlines() if ln.strip() in ("sat", "unsat", "unknown")]
    if len(got) != len(expect):
        return None, f"solver produced {len(got)} answers for {len(expect)} queries: {r.stderr[:200]}"
    bad = [(p, nm) for (p, nm, e), g in zip(expect, got) if (g == "sat") != e]
    return bad, None
