"""Canonical form of polynomial terms (decision procedure for polynomial identities).

A z3 real term built from +, -, *, constant powers and division by constants is expanded into a
dict  monomial -> rational coefficient, where a monomial is a sorted tuple of (atom id, exponent).
Two rewrite systems are applied on top, both coming from facts in the path condition:

* declared reciprocals  w * x = 1:   x^a w^b  ->  x^(a-b)  (Laurent monomials);
* square-root auxiliaries y >= 0, y*y = E:   y^(2k) -> E^k,  y^(2k+1) -> y E^k.

Two terms are equal for all values satisfying these facts if their canonical forms coincide
(sound; not complete - anything else is left to the SMT solver).
"""

from __future__ import annotations

from fractions import Fraction

import z3

MAX_TERMS = 20000


class TooBig(Exception):
    pass


def _const(t):
    if z3.is_rational_value(t):
        return Fraction(t.numerator_as_long(), t.denominator_as_long())
    if z3.is_int_value(t):
        return Fraction(t.as_long())
    return None


def _mul_mono(m1, m2):
    d = dict(m1)
    for a, e in m2:
        d[a] = d.get(a, 0) + e
    return tuple(sorted((a, e) for a, e in d.items() if e != 0))


def _add(p, q, sign=1):
    out = dict(p)
    for m, c in q.items():
        v = out.get(m, 0) + sign * c
        if v == 0:
            out.pop(m, None)
        else:
            out[m] = v
    return out


def _mul(p, q):
    if len(p) * len(q) > MAX_TERMS:
        raise TooBig()
    out = {}
    for m1, c1 in p.items():
        for m2, c2 in q.items():
            m = _mul_mono(m1, m2)
            v = out.get(m, 0) + c1 * c2
            if v == 0:
                out.pop(m, None)
            else:
                out[m] = v
    return out


def _pow(p, n):
    out = {(): Fraction(1)}
    for _ in range(n):
        out = _mul(out, p)
    return out


class Normalizer:
    def __init__(self, recip=None, sqrt=None):
        """recip: {id(x): w_term}; sqrt: {id(E): (E_term, y_Sym)} as kept by the context."""
        self.atoms = {}        # id -> term
        self.cache = {}
        self.inv = {}          # id(w) -> id(x)
        self._keep = [recip, sqrt]
        for xid, w in (recip or {}).items():
            self.inv[w.get_id()] = xid
        self.sq = {}           # id(y) -> E term
        for _eid, (eterm, ysym) in (sqrt or {}).items():
            self.sq[ysym.t.get_id()] = eterm

    def poly(self, t):
        tid = t.get_id()
        hit = self.cache.get(tid)
        if hit is not None:
            return hit[1]
        r = self._poly(t)
        self.cache[tid] = (t, r)      # keep the term alive: z3 re-uses ids of collected terms
        return r

    def _atom(self, t):
        tid = t.get_id()
        if tid in self.inv:                      # reciprocal variable: x^-1
            xid = self.inv[tid]
            return {((xid, -1),): Fraction(1)}
        self.atoms[tid] = t
        return {((tid, 1),): Fraction(1)}

    def _poly(self, t):
        c = _const(t)
        if c is not None:
            return {(): c} if c != 0 else {}
        k = t.decl().kind()
        ch = t.children()
        if k == z3.Z3_OP_ADD:
            out = {}
            for x in ch:
                out = _add(out, self.poly(x))
            return out
        if k == z3.Z3_OP_SUB:
            out = self.poly(ch[0])
            for x in ch[1:]:
                out = _add(out, self.poly(x), -1)
            return out
        if k == z3.Z3_OP_UMINUS:
            return _add({}, self.poly(ch[0]), -1)
        if k == z3.Z3_OP_MUL:
            out = {(): Fraction(1)}
            for x in ch:
                out = _mul(out, self.poly(x))
            return out
        if k == z3.Z3_OP_DIV:
            d = _const(ch[1])
            if d is not None and d != 0:
                return {m: c / d for m, c in self.poly(ch[0]).items()}
            return self._atom(t)
        if k == z3.Z3_OP_POWER:
            e = _const(ch[1])
            if e is not None and e.denominator == 1 and 0 <= e <= 64:
                return _pow(self.poly(ch[0]), int(e))
            return self._atom(t)
        if k == z3.Z3_OP_TO_REAL:
            return self.poly(ch[0])
        return self._atom(t)

    def reduce(self, p, depth=0):
        """Apply y^2 -> E for square-root auxiliaries until no even power remains."""
        if not self.sq or depth > 8:
            return p
        changed = False
        out = {}
        for m, c in p.items():
            rest = []
            extra = None
            for a, e in m:
                if a in self.sq and (e >= 2):
                    k = e // 2
                    ep = _pow(self.poly(self.sq[a]), k)
                    extra = ep if extra is None else _mul(extra, ep)
                    if e % 2:
                        rest.append((a, 1))
                    changed = True
                else:
                    rest.append((a, e))
            term = {tuple(sorted(rest)): c}
            if extra is not None:
                term = _mul(term, extra)
            out = _add(out, term)
        if changed:
            return self.reduce(out, depth + 1)
        return out

    def canon(self, t):
        return self.reduce(self.poly(t))

    def key(self, t):
        """Hashable canonical key of a term."""
        p = self.canon(t)
        return tuple(sorted((m, (c.numerator, c.denominator)) for m, c in p.items()))


def difference_constant(norm, a, b):
    """If a - b normalises to a constant return it (Fraction), else None."""
    try:
        p = norm.canon(a - b)
    except TooBig:
        return None
    if not p:
        return Fraction(0)
    if set(p) == {()}:
        return p[()]
    return None
