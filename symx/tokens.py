"""Placeholder tokens: how symbolic numbers travel through real text writers and readers.

Formatting a :class:`Sym` yields a string of private-use characters of exactly the width the
real number would occupy (the width class is part of the symbolic state and may fork); parsing
such a string with the stubbed ``float``/``int`` returns the term again.  Strings that mix,
cut or merge tokens are modelled as what Python's ``float()``/``int()`` would do with the
corresponding digits (ValueError, or a different number).
"""

from __future__ import annotations

import builtins
import re

import numpy as np
import z3

from . import core
from .core import PathAbort, Sym, current

HEAD0 = 0xE000
NHEAD_BMP = 0x18FF            # heads E000..F8FE
FILL = "\uf8ff"
SEP = ","                      # thousands separator inside a token text (float() rejects it)
_SPEC = re.compile(r"^(?:(.)?([<>=^]))?([-+ ])?(z)?(#)?(0)?(\d+)?([,_])?(?:\.(\d+))?([a-zA-Z%])?$")


def _head(i):
    if i < NHEAD_BMP:
        return chr(HEAD0 + i)
    return chr(0xF0000 + i - NHEAD_BMP)


def _head_id(ch):
    o = ord(ch)
    if HEAD0 <= o < HEAD0 + NHEAD_BMP:
        return o - HEAD0
    if 0xF0000 <= o < 0xFFFFE:
        return o - 0xF0000 + NHEAD_BMP
    return None


def is_pua(ch):
    o = ord(ch)
    return HEAD0 <= o <= 0xF8FF or 0xF0000 <= o < 0xFFFFE


def has_token(s):
    return any(is_pua(c) for c in s)


class Token:
    __slots__ = ("id", "sym", "spec", "kind", "text", "ndigits", "note")

    def __init__(self, id, sym, spec, kind, text, ndigits=None, note=None):
        self.id, self.sym, self.spec, self.kind, self.text = id, sym, spec, kind, text
        self.ndigits = ndigits
        self.note = note


def _registry():
    ctx = current()
    reg = ctx.scratch.get("tokens")
    if reg is None:
        reg = ctx.scratch["tokens"] = []
    return reg


def _pow10(k):
    return 10 ** k if k >= 0 else 1.0 / (10 ** (-k))


def _budget_left(ctx):
    b = ctx.scratch.get("full_budget")
    return b is None or ctx.scratch.get("full_used", 0) < b


def _forced_full(ctx, full):
    """The fork budget is used up: is the value nevertheless forced to fill its column by what this path already
    assumed (the same number written a second time, a number read back from a full column)?  Then the column is full -
    assuming otherwise would make the path condition unsatisfiable and every later obligation vacuous."""
    if isinstance(full, (builtins.bool, np.bool_)):
        return builtins.bool(full)
    t = getattr(full, "t", None)
    if t is None:
        return False
    import z3
    return ctx._check(z3.Not(t)) == "unsat"


def format_sym(x: Sym, spec: str) -> str:
    """Model of ``format(x, spec)`` for a symbolic number."""
    ctx = current()
    m = _SPEC.match(spec or "")
    if not m:
        if spec and spec[-1].isalpha() and spec[-1] not in "bcdeEfFgGnosxX":
            # not a presentation type of Python's format mini-language: the real format() raises ValueError
            raise ValueError(f"Invalid format specifier {spec!r} for a number")
        raise PathAbort(f"unsupported format spec {spec!r}")
    fill, align, sign, _z, _alt, zero, width, grouping, prec, typ = m.groups()
    width = builtins.int(width) if width else None
    prec = builtins.int(prec) if prec is not None else None
    is_int = x.is_int
    if typ is None:
        typ = "d" if is_int else "r"
    if typ in "dn" and not is_int:
        raise ValueError(f"Unknown format code '{typ}' for object of type 'float'")
    reg = _registry()
    tid = len(reg)
    head = _head(tid)
    policy = ctx.scratch.get("width_policy", "fit")
    ndigits = None
    note = None
    if typ in "fF":
        d = 6 if prec is None else prec
        tail = 1 + d if d > 0 else 0          # ".ddd"
        if width is None:
            content = 2 + tail + 1
        else:
            # characters needed: sign + integer digits + tail
            room_full = width - tail            # sign + integer digits when the column is full
            signslot = 1 if sign in (" ", "+") else 0
            forced = False
            if policy != "fit" and room_full >= 2 and not _budget_left(ctx):
                k = width - tail
                forced = _forced_full(ctx, core.Or(core.And(x >= _pow10(k - 1), x < _pow10(k)),
                                                   core.And(x <= -_pow10(k - 2), x > -_pow10(k - 1)) if k >= 2 else False))
            if forced:
                content = width
                note = "full"
            elif policy == "fit" or room_full < 2 or not _budget_left(ctx):
                # assume at least one blank remains: sign+digits <= width - tail - 1
                k = width - tail - 1
                if k < 1:
                    raise PathAbort(f"format {spec!r} cannot hold any number")
                # negative numbers need one more character
                ctx.assume(core.And(x < _pow10(k), x > -_pow10(k - 1) if k >= 2 else x >= 0))
                content = width - 1
            elif policy == "over" and builtins.bool(core.Or(x >= _pow10(width - tail), x <= -_pow10(width - tail - 1))):
                # the value needs more characters than the column has: Python widens the field (by one or two here)
                k = width - tail
                ctx.scratch["full_used"] = ctx.scratch.get("full_used", 0) + 1
                note = "over"
                if builtins.bool(core.Or(core.And(x >= _pow10(k), x < _pow10(k + 1)), core.And(x <= -_pow10(k - 1), x > -_pow10(k)))):
                    content = width + 1
                else:
                    ctx.assume(core.Or(core.And(x >= _pow10(k + 1), x < _pow10(k + 2)), core.And(x <= -_pow10(k), x > -_pow10(k + 1))))
                    content = width + 2
            else:
                # fork: value fills its column completely / leaves at least one blank
                k = width - tail
                full = core.Or(core.And(x >= _pow10(k - 1), x < _pow10(k)),
                               core.And(x <= -_pow10(k - 2), x > -_pow10(k - 1)) if k >= 2 else False)
                if builtins.bool(full):
                    content = width
                    note = "full"
                    ctx.scratch["full_used"] = ctx.scratch.get("full_used", 0) + 1
                else:
                    ctx.assume(core.And(x < _pow10(k - 1), x > -_pow10(k - 2) if k >= 2 else x >= 0))
                    content = width - 1
        if grouping == ",":
            big = core.Or(x >= 1000, x <= -1000)
            if builtins.bool(big):
                note = "sep"
    elif typ in "eEgG" or typ == "r":
        d = 6 if prec is None else prec
        if typ in "eE":
            base = d + 5 + (1 if d > 0 else 0)      # d.ddddE+XX without sign
        else:
            base = 8
        if width is None:
            content = base + 1
        elif sign in (" ", "+") and width == base + 1:
            content = width                  # the sign slot is always occupied: constant full width
            note = "full"
        elif width >= base + 2:
            content = width - 1
        elif width == base + 1:
            # a negative number fills the column
            if builtins.bool(x < 0):
                content = width
                note = "full"
            else:
                content = width - 1
        else:
            # the field is never wider than its content: free-width behaviour
            content = base + 1
    elif typ == "d":
        if width is None:
            content = 4
        else:
            forced = False
            if policy != "fit" and not _budget_left(ctx):
                k = width
                forced = _forced_full(ctx, core.Or(core.And(x >= 10 ** (k - 1), x < 10 ** k),
                                                   core.And(x <= -(10 ** (k - 2)), x > -(10 ** (k - 1))) if k >= 2 else False))
            if forced:
                content = width
                note = "full"
                ndigits = width
            elif policy == "fit" or not _budget_left(ctx):
                k = width - 1
                ctx.assume(core.And(x < 10 ** k, x > -(10 ** (k - 1)) if k >= 2 else x >= 0))
                content = width - 1
            else:
                k = width
                full = core.Or(core.And(x >= 10 ** (k - 1), x < 10 ** k),
                               core.And(x <= -(10 ** (k - 2)), x > -(10 ** (k - 1))) if k >= 2 else False)
                if builtins.bool(full):
                    content = width
                    note = "full"
                    ndigits = width
                    ctx.scratch["full_used"] = ctx.scratch.get("full_used", 0) + 1
                else:
                    ctx.assume(core.And(x < 10 ** (k - 1), x > -(10 ** (k - 2)) if k >= 2 else x >= 0))
                    content = width - 1
    else:
        raise PathAbort(f"unsupported format type {typ!r}")
    content = max(1, content)
    body = head + FILL * (content - 1)
    # keep the decimal point where the real text has it (readers may locate fields by it)
    dpos = None
    if typ in "fF" and (6 if prec is None else prec) > 0:
        dpos = len(body) - ((6 if prec is None else prec) + 1)
    elif typ in "eE" and (6 if prec is None else prec) > 0:
        dpos = len(body) - ((6 if prec is None else prec) + 5)
    if dpos is not None and dpos >= 1:
        body = body[:dpos] + "." + body[dpos + 1:]
    if note == "sep" and len(body) >= 6:
        body = body[:-5] + SEP + body[-4:]
    if sign == " " and width is None:
        body = " " + body
    if width is not None and len(body) < width:
        pad = (fill or " ") * (width - len(body))
        if zero and not align:
            body = body  # zero padding keeps the token intact; width below
            body = head + FILL * (width - 1)
        elif align == "<":
            body = body + pad
        elif align == "^":
            body = pad[: len(pad) // 2] + body + pad[len(pad) // 2:]
        else:
            body = pad + body
    tok = Token(tid, x, spec, "int" if is_int else "float", body.strip(), ndigits, note)
    reg.append(tok)
    return body


_SYMFLOAT_TYPES = (float, np.floating)


def _lookup(s: str):
    """Interpret a stripped string containing private-use characters.

    Returns (status, payload): 'one' -> Token; 'junk' -> reason string.
    """
    reg = _registry()
    tid = _head_id(s[0])
    if tid is not None and tid < len(reg):
        tok = reg[tid]
        if s == tok.text:
            return "one", tok
        # variants of the same token produced by reader-side text edits
        if len(s) == len(tok.text) and s.replace("E", "D") == tok.text:
            return "one-E", tok
    return "junk", s


def _tokens_in(s):
    reg = _registry()
    out = []
    i = 0
    while i < len(s):
        tid = _head_id(s[i]) if is_pua(s[i]) and s[i] != FILL else None
        if tid is not None and tid < len(reg):
            tok = reg[tid]
            j = i + 1
            while j < len(s) and (s[j] == FILL or s[j] in (SEP, "D", "E", ".")) and j - i < len(tok.text):
                j += 1
            out.append((tok, s[i:j] == tok.text or s[i:j].replace("E", "D") == tok.text))
            i = j
        else:
            out.append((None, False))
            i += 1
    return out


class _FloatMeta(type):
    def __instancecheck__(cls, inst):
        return isinstance(inst, float)

    def __subclasscheck__(cls, sub):
        return issubclass(sub, float)


class symfloat(float, metaclass=_FloatMeta):
    """Stand-in for the builtin ``float`` in an analysed module."""

    dtype = np.dtype(float)      # see symint.dtype

    def __new__(cls, x=0.0):
        if isinstance(x, Sym):
            if x.is_int:
                return Sym(z3.ToReal(x.t))
            return x
        if isinstance(x, core.SymBool):
            return Sym(z3.If(x.t, z3.RealVal(1), z3.RealVal(0)))
        if isinstance(x, str) and has_token(x):
            return parse_number(x, "float")
        if isinstance(x, np.ndarray) and x.dtype == object and x.shape == ():
            return symfloat(x.item())
        return float(x)

    fromhex = float.fromhex


class _IntMeta(type):
    def __instancecheck__(cls, inst):
        return isinstance(inst, int)

    def __subclasscheck__(cls, sub):
        return issubclass(sub, int)


class symint(int, metaclass=_IntMeta):
    """Stand-in for the builtin ``int`` in an analysed module."""

    # numpy resolves ``dtype=<this class>`` through this attribute: plain arrays that reach an analysed module
    # (``arr.astype(int)``, ``np.zeros(n, int)``) keep numpy's integer semantics instead of becoming object arrays
    dtype = np.dtype(int)

    def __new__(cls, x=0, *args):
        if isinstance(x, Sym):
            return core.sym_trunc(x)
        if isinstance(x, str) and has_token(x):
            return parse_number(x, "int")
        if isinstance(x, np.ndarray) and x.dtype == object and x.shape == ():
            return symint(x.item())
        return int(x, *args)


def symround(x, ndigits=None):
    if isinstance(x, Sym):
        return x.__round__(ndigits)
    return round(x, ndigits) if ndigits is not None else round(x)


def symabs(x):
    if isinstance(x, Sym):
        return core.sym_abs(x)
    return abs(x)


def parse_number(text: str, kind: str):
    """Model of float(text) / int(text) for a string containing token characters."""
    ctx = current()
    s = text.strip()
    status, tok = _lookup(s) if s else ("junk", s)
    if status in ("one", "one-E"):
        if "D" in s:
            raise ValueError(f"could not convert string to float: {text!r} (Fortran D exponent)")
        if tok.note == "sep":
            raise ValueError(f"could not convert string to float: {text!r} (thousands separator)")
        if kind == "int":
            if tok.kind != "int":
                raise ValueError(f"invalid literal for int() with base 10: {text!r}")
            return tok.sym
        if tok.kind == "int":
            return Sym(z3.ToReal(tok.sym.t))
        return tok.sym
    # irregular text: classify
    parts = _tokens_in(s)
    complete = [t for t, ok in parts if t is not None and ok]
    if len(parts) == len(complete) and len(complete) >= 2:
        # several complete tokens glued together
        if all(t.kind == "int" for t in complete) and kind in ("int", "float") \
                and all(t.ndigits is not None for t in complete[1:]):
            val = complete[0].sym
            for t in complete[1:]:
                val = val * (10 ** t.ndigits) + t.sym
            ctx.note("merged integer fields parsed as one number")
            # only valid when the later numbers are non-negative (else '-' inside: ValueError)
            for t in complete[1:]:
                if bool(t.sym < 0):
                    raise ValueError(f"invalid literal: {text!r}")
            if kind == "float" and isinstance(val, Sym) and val.is_int:
                return Sym(z3.ToReal(val.t))
            return val
        raise ValueError(f"could not convert string to {kind}: {text!r} (merged fields)")
    if any(t is None for t, _ in parts) and not any(is_pua(c) for c in s if _head_id(c) is None and c != FILL):
        pass
    # a token was cut (or is mixed with other characters): the digits read differ from those
    # written.  Model: an unconstrained number (float() of a digit substring is some other number);
    # replay decides whether the real code misreads.
    ctx.note("cut/mixed token parsed as an unconstrained number")
    n = ctx.scratch.get("ncut", 0)
    ctx.scratch["ncut"] = n + 1
    if kind == "int":
        v = z3.Int(f"_cutint{n}")
    else:
        v = z3.Real(f"_cut{n}")
    return Sym(v)
