"""Run a CrossHair contract (crosshair check --report_all) and translate its verdict."""

from __future__ import annotations

import os
import re
import subprocess
import sys
import time

VERIF = os.path.dirname(os.path.dirname(os.path.abspath(__file__)))


def run(j):
    """j: job dict with params {file, func, timeout}. Returns fields merged into the job result."""
    p = j["params"]
    path = os.path.join(VERIF, p["file"])
    src = open(path).read().splitlines()
    line = next(i + 1 for i, l in enumerate(src) if l.startswith(f"def {p['func']}("))
    env = dict(os.environ, PYTHONPATH=f"{VERIF}:{os.environ.get('SYMX_REPO', '/repo')}")
    t0 = time.time()
    cmd = [sys.executable, "-m", "crosshair", "check", "--report_all", "--per_condition_timeout", str(p.get("timeout", 20)),
           f"{path}:{line}"]
    try:
        r = subprocess.run(cmd, capture_output=True, text=True, env=env, timeout=p.get("timeout", 20) * 4 + 60, cwd=VERIF)
        out = (r.stdout + r.stderr).strip()
    except subprocess.TimeoutExpired:
        out = "timeout"
    dt = time.time() - t0
    status = "unknown"
    cex = []
    if "Confirmed over all paths" in out:
        status = "discharged"
    m = re.search(r"error: (?:false|.*?) when calling (\w+)\((.*?)\)(?: \(which returns|\s*$)", out, re.M)
    if m and m.group(1) == p["func"]:
        status = "cex"
        cex.append(dict(label=p["func"], cls="crosshair", model={"call": m.group(2)}, choices=[], detail=out[-300:], notes=[]))
    counts = dict(discharged=1 if status == "discharged" else 0, cex=len(cex), unknown=1 if status == "unknown" else 0)
    return dict(paths=1, path_status={"ok": 1}, obligations=1, counts=counts, cex=cex, ncex=len(cex),
                samples=[dict(contract=p["func"], verdict=status, crosshair=out[-200:])], aborts={},
                unknowns=[dict(label=p["func"], cls="crosshair: not confirmed within the time budget", t=round(dt, 1))] if status == "unknown" else [],
                not_explored=0, stats=dict(branch_queries=0, oblige_queries=1, solver_time=dt, max_query=dt, decided_branches=0),
                functions=[], validated=0, mismatches=0, mismatch_samples=[], ch=dict(verdict=status, seconds=round(dt, 1)))
