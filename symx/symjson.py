"""symjson: stand-in for the ``json`` module that transports placeholder tokens.

load: every token in the text is replaced by a marker number (2**52 + id, exactly representable),
the real decoder runs, and marker floats in the decoded structure are mapped back to the terms.
dump: symbolic numbers are replaced by marker floats, the real encoder runs, and the marker
literals in the output are replaced by tokens (free width).
"""

from __future__ import annotations

import json as _json
import re

import numpy as np

from . import tokens as T
from .core import Sym, current

BASE = 2 ** 52
JSONDecodeError = _json.JSONDecodeError


def _tokens_to_markers(text):
    reg = T._registry()
    out = []
    i = 0
    n = len(text)
    while i < n:
        ch = text[i]
        tid = T._head_id(ch) if T.is_pua(ch) and ch != T.FILL else None
        if tid is not None and tid < len(reg) and text.startswith(reg[tid].text, i):
            out.append(repr(float(BASE + tid)))
            i += len(reg[tid].text)
        else:
            out.append(ch)
            i += 1
    return "".join(out)


def _restore(obj):
    reg = T._registry()
    if isinstance(obj, float) and BASE <= obj < BASE + len(reg) and obj == int(obj):
        tok = reg[int(obj) - BASE]
        return tok.sym
    if isinstance(obj, list):
        return [_restore(x) for x in obj]
    if isinstance(obj, dict):
        return {k: _restore(v) for k, v in obj.items()}
    return obj


def loads(s, **kw):
    if current().mode != "sym" or not T.has_token(s):
        return _json.loads(s, **kw)
    return _restore(_json.loads(_tokens_to_markers(s), **kw))


def load(f, **kw):
    return loads(f.read(), **kw)


def _mark(obj, table):
    if isinstance(obj, Sym):
        table.append(obj)
        return float(BASE + 10 ** 6 + len(table) - 1)
    if isinstance(obj, np.ndarray):
        return _mark(obj.tolist(), table)
    if isinstance(obj, (list, tuple)):
        return [_mark(x, table) for x in obj]
    if isinstance(obj, dict):
        return {k: _mark(v, table) for k, v in obj.items()}
    if isinstance(obj, np.floating):
        return float(obj)
    if isinstance(obj, np.integer):
        return int(obj)
    if isinstance(obj, np.bool_):
        return bool(obj)
    return obj


def dumps(obj, **kw):
    if current().mode != "sym":
        return _json.dumps(obj, **kw)
    table = []
    text = _json.dumps(_mark(obj, table), **kw)
    if not table:
        return text

    def rep(m):
        k = int(float(m.group(0))) - BASE - 10 ** 6
        if 0 <= k < len(table):
            return format(table[k], "")
        return m.group(0)
    return re.sub(r"(?<![\d.])4503599628[34]\d{5}\.0(?![\d])", rep, text)


def dump(obj, f, **kw):
    f.write(dumps(obj, **kw))


def __getattr__(name):
    return getattr(_json, name)
