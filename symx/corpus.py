"""Corpus tokenisation: turn the decimal numbers of a real fixture file into placeholder tokens.

Every decimal number (with at least ``min_decimals`` digits after the point, optional E/D exponent)
is replaced by a token of the same width that carries a fresh symbol; the real reader then runs
on the file with the structure of the fixture and *all* values of its numbers.
"""

from __future__ import annotations

import re

from . import tokens as T
from .core import Sym, current

NUM = re.compile(r"(?<![\w.])[-+]?\d+\.\d+(?:[EeDd][-+]?\d+)?(?![\w.])|(?<![\w.])[-+]?\d+\.(?:[EeDd][-+]?\d+)?(?![\w.\d])")


def tokenise(text: str, min_decimals=2, max_tokens=4000, prefix="n", skip=None, use_model=True, ctx=None):
    """Return (new_text, table) where table[i] = (name, Sym-or-float, original text, line number)."""
    ctx = ctx if ctx is not None else current()      # a context proxy (call-history harness) names the symbols itself
    out = []
    table = []
    pos = 0
    count = 0
    for m in NUM.finditer(text):
        s = m.group(0)
        frac = s.split(".", 1)[1]
        ndec = len(re.match(r"\d*", frac).group(0))
        if ndec < min_decimals or count >= max_tokens:
            continue
        if skip is not None and skip(text, m):
            continue
        name = f"{prefix}{count}"
        value = float(s.replace("D", "E").replace("d", "e"))
        if ctx.mode == "conc":
            v = ctx.model.get(name, value) if use_model else value
            # keep the original text when the model does not move the value (exact digits)
            rep = s if v == value else _refmt(s, v)
            out.append(text[pos:m.start()])
            out.append(rep)
            pos = m.end()
            table.append((name, float(rep.replace("D", "E").replace("d", "e")), s, text.count("\n", 0, m.start()) + 1))
            count += 1
            continue
        sym = ctx.real(name, default=value)
        reg = T._registry()
        tid = len(reg)
        head = T._head(tid)
        body = [head] + [T.FILL] * (len(s) - 1)
        # keep '.', and the exponent letter where they are (readers locate / rewrite them)
        for i, ch in enumerate(s):
            if i == 0:
                continue
            if ch == "." or ch in "Dd":
                body[i] = "." if ch == "." else "D"
        tokt = "".join(body)
        reg.append(T.Token(tid, sym, "corpus", "float", tokt, None, None))
        out.append(text[pos:m.start()])
        out.append(tokt)
        pos = m.end()
        table.append((name, sym, s, text.count("\n", 0, m.start()) + 1))
        count += 1
    out.append(text[pos:])
    return "".join(out), table


def _refmt(orig: str, v: float) -> str:
    """Format v like the original literal (same decimals / exponent style, width may grow)."""
    m = re.match(r"([-+]?)(\d+)\.(\d*)(?:([EeDd])([-+]?)(\d+))?$", orig)
    if not m:
        return repr(v)
    ndec = len(m.group(3))
    if m.group(4):
        s = f"{v:.{ndec}E}"
        mant, ex = s.split("E")
        exd = len(m.group(6))
        sign = ex[0]
        s = f"{mant}{m.group(4)}{sign}{int(ex[1:]):0{exd}d}"
    else:
        s = f"{v:.{ndec}f}"
    return s.rjust(len(orig))
