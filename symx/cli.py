"""Command line: ``python -m symx.cli <ID> quick|thorough`` and ``--replay <file>``."""

from __future__ import annotations

import argparse
import importlib
import importlib.util
import json
import os
import sys

VERIF = os.path.dirname(os.path.dirname(os.path.abspath(__file__)))
if VERIF not in sys.path:
    sys.path.insert(0, VERIF)


def replay(path, quiet=False):
    from symx import core
    with open(path) as f:
        rp = json.load(f)
    if rp.get("cls") == "crosshair":
        # CrossHair counterexample: call the contract function on the reported arguments
        spec = importlib.util.spec_from_file_location("ch_contracts", os.path.join(VERIF, rp["params"]["file"]))
        m = importlib.util.module_from_spec(spec)
        spec.loader.exec_module(m)
        try:
            ok = eval(f"f({rp['model']['call']})", {"f": getattr(m, rp["params"]["func"])})
        except Exception as exc:
            print(f"replay crashed: {type(exc).__name__}: {exc}")
            return 0
        if ok is not True:
            print(f"VIOLATION property={rp['property']} replay={path}")
            print(f"  contract {rp['params']['func']}({rp['model']['call']}) is false on the real code")
            return 1
        print("not reproduced")
        return 0
    mod = importlib.import_module(rp["module"])
    fn = getattr(mod, rp["fn"])
    try:
        ctx, status, err = core.run_concrete(fn, rp["params"], rp["model"], rp["choices"],
                                            tier=rp.get("tier", "quick"))
    except Exception as exc:
        if rp.get("label") == "no-unexpected-exception" and type(exc).__name__ == str(rp.get("cls")):
            print(f"VIOLATION property={rp['property']} replay={path}")
            print(f"  the harness cannot complete on the real code: {type(exc).__name__}: {exc}")
            return 1
        # the harness itself crashed on real code with concrete numbers: not a confirmation
        print(f"replay crashed: {type(exc).__name__}: {exc}")
        import traceback
        traceback.print_exc()
        return 0
    if status != "ok":
        print(f"replay status={status} {err or ''}")
        return 0
    hit = [f for f in ctx.failed if f[0] == rp["label"] and str(f[1]) == str(rp["cls"])]
    if hit:
        print(f"VIOLATION property={rp['property']} replay={path}")
        if not quiet:
            print(f"  obligation {rp['label']!r} (class {rp['cls']}) fails on the real code for "
                  f"model={rp['model']} choices={rp['choices']}; detail={hit[0][2]}")
        else:
            print(f"  detail={hit[0][2]}")
        return 1
    if ctx.failed:
        # the obligation the solver's input was produced for holds on the real code (the symbolic run over-approximated
        # or could not complete this path), but on that very input another obligation of the harness fails concretely:
        # a reproduced violation all the same, reported under the obligation that fails
        f0 = ctx.failed[0]
        print(f"VIOLATION property={rp['property']} replay={path}")
        print(f"  concrete-failure label={f0[0]} ||cls={f0[1]}||")
        print(f"  on the input found for {rp['label']!r} ({rp['cls']}), obligation {f0[0]!r} (class {f0[1]}) fails on the real code; "
              f"detail={f0[2]}")
        return 1
    print(f"not reproduced: obligation {rp['label']!r} holds concretely "
          f"(failed concretely: {[f[0] for f in ctx.failed]})")
    return 0


def main(argv=None):
    ap = argparse.ArgumentParser()
    ap.add_argument("prop", nargs="?")
    ap.add_argument("tier", nargs="?", default=os.environ.get("VERIF_TIER", "quick"))
    ap.add_argument("--replay")
    ap.add_argument("--quiet", action="store_true")
    ap.add_argument("--workers", type=int, default=None)
    ap.add_argument("--only", default=None, help="substring filter on job names (debugging)")
    a = ap.parse_args(argv)
    if a.replay:
        return replay(a.replay, a.quiet)
    if not a.prop:
        ap.error("property id required")
    seed = int(os.environ.get("VERIF_SEED", "0") or 0)
    from symx import runner
    mod = importlib.import_module(f"harness.{a.prop.lower()}")
    jobs = mod.jobs(a.tier)
    if a.only:
        jobs = [j for j in jobs if a.only in j["name"]]
    return runner.run_property(a.prop, jobs, a.tier, seed, mod.META, workers=a.workers)


if __name__ == "__main__":
    try:
        rc = main()
    except SystemExit:
        raise
    except BaseException:
        import traceback
        traceback.print_exc()
        rc = 3
    sys.exit(rc)
