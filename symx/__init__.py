"""symx: symbolic shadow execution of iodata's numpy code with z3 (see DESIGN.md section 2)."""
