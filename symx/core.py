"""symx core: symbolic values, path exploration by re-execution, obligations.

A harness is a deterministic Python function ``h(ctx, **params)``.  In *symbolic* mode the
values it obtains from ``ctx.real/ctx.int`` are :class:`Sym` objects wrapping z3 terms; the
real iodata code is run on them.  Every data-dependent branch (``SymBool.__bool__``) asks z3
which directions are feasible under the current path condition and the explorer re-executes
the harness once per feasible decision sequence.  Obligations registered with ``ctx.oblige``
are discharged by z3 (``PC and not formula`` must be unsat).  In *concrete* mode the same
harness runs with plain floats taken from a solver model and without any stub: this is the
replay of a counterexample against the unpatched code and the cross-validation of the engine.
"""

from __future__ import annotations

import itertools
import math
import time
from fractions import Fraction

import numpy as np
import z3

__all__ = [
    "Sym", "SymBool", "PathAbort", "Ctx", "Explorer", "current", "lift", "is_sym",
    "sym_sqrt", "sym_exp", "sym_abs", "And", "Or", "Not", "Implies",
]


class PathAbort(BaseException):
    """The path reached something the engine does not model (inconclusive, never a verdict)."""


class _Infeasible(BaseException):
    """Internal: the path condition became unsatisfiable (path is dropped)."""


class _Deadline(BaseException):
    pass


_CTX = None


def current() -> "Ctx":
    if _CTX is None:
        raise RuntimeError("no active symx context")
    return _CTX


def _set_current(ctx):
    global _CTX
    _CTX = ctx


# ---------------------------------------------------------------------------------------------
# term helpers


def _realval(x) -> z3.ArithRef:
    if isinstance(x, (bool, np.bool_)):
        return z3.IntVal(int(x))
    if isinstance(x, (int, np.integer)):
        return z3.IntVal(int(x))
    if isinstance(x, Fraction):
        return z3.RealVal(str(x))
    x = float(x)
    if math.isnan(x) or math.isinf(x):
        raise PathAbort(f"non-finite float {x} in symbolic arithmetic")
    return z3.RealVal(str(Fraction(x)))


def _is_num(x):
    return isinstance(x, (int, float, np.integer, np.floating, bool, np.bool_, Fraction))


def is_sym(x):
    return isinstance(x, (Sym, SymBool))


def lift(x) -> z3.ExprRef:
    """z3 term (Real sort unless Int) for a Sym or number."""
    if isinstance(x, Sym):
        return x.t
    if isinstance(x, np.ndarray) and x.shape == ():
        return lift(x.item())
    if _is_num(x):
        return _realval(x)
    raise PathAbort(f"cannot lift {type(x).__name__} to a term")


def _to_real(t):
    if z3.is_int(t):
        if z3.is_int_value(t):
            return z3.RealVal(t.as_long())
        return z3.ToReal(t)
    return t


def _const_value(t):
    """Fraction if the term is a numeral, else None."""
    if z3.is_rational_value(t):
        return Fraction(t.numerator_as_long(), t.denominator_as_long())
    if z3.is_int_value(t):
        return Fraction(t.as_long())
    return None


def _mk(t):
    """Wrap a term; numerals become Python numbers (keeps concrete data out of the solver)."""
    c = _const_value(t)
    if c is not None:
        if z3.is_int(t):
            return int(c)
        return float(c) if c.denominator != 1 else float(c)
    return Sym(t)


class Sym:
    """A symbolic real (or integer) number: a z3 term with Python number behaviour."""

    __slots__ = ("t",)
    __array_priority__ = 1000.0

    def __init__(self, t):
        self.t = t

    # -- helpers
    @property
    def is_int(self):
        return z3.is_int(self.t)

    def _bin(self, other, op, swap=False):
        if isinstance(other, np.ndarray):
            if other.shape == ():
                other = other.item()
            else:
                f = (lambda e: _binop(e, self, op)) if swap else (lambda e: _binop(self, e, op))
                out = np.empty(other.shape, dtype=object)
                for idx in np.ndindex(other.shape):
                    out[idx] = f(other[idx])
                return out.view(_symarray_cls()) if _symarray_cls() else out
        if isinstance(other, SymBool):
            other = Sym(z3.If(other.t, z3.RealVal(1), z3.RealVal(0)))
        if not (isinstance(other, Sym) or _is_num(other)):
            return NotImplemented
        return _binop(other, self, op) if swap else _binop(self, other, op)

    def __add__(self, o): return self._bin(o, "+")
    def __radd__(self, o): return self._bin(o, "+", True)
    def __sub__(self, o): return self._bin(o, "-")
    def __rsub__(self, o): return self._bin(o, "-", True)
    def __mul__(self, o): return self._bin(o, "*")
    def __rmul__(self, o): return self._bin(o, "*", True)
    def __truediv__(self, o): return self._bin(o, "/")
    def __rtruediv__(self, o): return self._bin(o, "/", True)
    def __floordiv__(self, o): return self._bin(o, "//")
    def __rfloordiv__(self, o): return self._bin(o, "//", True)
    def __mod__(self, o): return self._bin(o, "%")
    def __rmod__(self, o): return self._bin(o, "%", True)

    def __neg__(self): return _mk(-self.t)
    def __pos__(self): return self
    def __abs__(self): return sym_abs(self)

    def __pow__(self, k, mod=None):
        if isinstance(k, Sym):
            raise PathAbort("symbolic exponent")
        if isinstance(k, np.ndarray):
            return self._bin(k, "**")
        return _pow(self, k)

    def __rpow__(self, base):
        raise PathAbort("symbolic exponent")

    # comparisons
    def _cmp(self, o, op):
        if isinstance(o, np.ndarray) and o.shape != ():
            out = np.empty(o.shape, dtype=object)
            for idx in np.ndindex(o.shape):
                out[idx] = self._cmp(o[idx], op)
            return out
        if isinstance(o, (str, bytes)) or o is None:
            return op in ("!=",)
        a, b = _coerce(self.t, lift(o))
        return SymBool({"<": a < b, "<=": a <= b, ">": a > b, ">=": a >= b,
                        "==": a == b, "!=": a != b}[op])

    def __lt__(self, o): return self._cmp(o, "<")
    def __le__(self, o): return self._cmp(o, "<=")
    def __gt__(self, o): return self._cmp(o, ">")
    def __ge__(self, o): return self._cmp(o, ">=")
    def __eq__(self, o): return self._cmp(o, "==")
    def __ne__(self, o): return self._cmp(o, "!=")
    def __hash__(self): return id(self)

    def __bool__(self):
        return bool(SymBool(self.t != 0))

    def __float__(self):
        if _CTX is not None and _CTX.scratch.get("allow_float_nan"):
            _CTX.note("float(Sym) -> nan (value only used in a message)")
            return float("nan")
        raise PathAbort("concretisation: float(Sym) reached (unmodelled C boundary)")

    def __int__(self):
        raise PathAbort("concretisation: int(Sym) reached (unmodelled C boundary)")

    def __index__(self):
        ctx = _CTX
        if ctx is None or ctx.mode != "sym" or not z3.is_int(self.t):
            raise PathAbort("concretisation: Sym used as index")
        return ctx.concretize_int(self)

    def __round__(self, ndigits=None):
        if ndigits is None or ndigits == 0:
            return sym_round_half_even(self)
        return self  # idealised: rounding to printed digits is the identity on exact reals

    def __trunc__(self):
        return sym_trunc(self)

    # numpy ufunc-by-method protocol for object arrays
    def sqrt(self): return sym_sqrt(self)
    def exp(self): return sym_exp(self)
    def conjugate(self): return self
    def rint(self): return sym_round_half_even(self)

    def __format__(self, spec):
        from . import tokens
        return tokens.format_sym(self, spec)

    def __str__(self):
        from . import tokens
        return tokens.format_sym(self, "")

    def __repr__(self):
        return f"Sym({self.t})"

    def __reduce__(self):
        raise PathAbort("Sym cannot be pickled/deep-copied by value")

    def __copy__(self):
        return self

    def __deepcopy__(self, memo):
        return self

    # numpy scalar look-alike
    @property
    def flat(self):
        return iter([self])

    size = 1
    shape = ()
    ndim = 0


def _coerce(a, b):
    if z3.is_int(a) and z3.is_int(b):
        return a, b
    return _to_real(a), _to_real(b)


def _binop(x, y, op):
    """x op y with constant folding; x, y are Sym or numbers (at least one Sym)."""
    xn, yn = _is_num(x), _is_num(y)
    if xn and yn:
        x, y = float(x), float(y)
        return {"+": x + y, "-": x - y, "*": x * y, "/": x / y if y else float("nan"),
                "//": x // y, "%": x % y, "**": x ** y}[op]
    if op == "**":
        return _pow(x, y)
    # constant folding of neutral / absorbing elements (what float arithmetic does for finite x)
    if op == "*":
        if (xn and x == 0) or (yn and y == 0):
            return 0.0
        if xn and x == 1:
            return y
        if yn and y == 1:
            return x
    elif op == "+":
        if xn and x == 0:
            return y
        if yn and y == 0:
            return x
    elif op == "-":
        if yn and y == 0:
            return x
    elif op == "/":
        if xn and x == 0:
            return 0.0
        if yn and y == 1:
            return x
        if yn and y == 0:
            raise PathAbort("division by concrete zero")
    a, b = lift(x), lift(y)
    if op in ("//", "%"):
        if z3.is_int(a) and z3.is_int(b) and yn and y > 0:
            # z3 div/mod are floor-like for positive divisor: same as Python
            return _mk(a / b) if op == "//" else _mk(a % b)
        raise PathAbort(f"unsupported symbolic {op}")
    a, b = _coerce(a, b)
    if op == "+":
        return _mk(z3.simplify(a + b)) if False else _mk(a + b)
    if op == "-":
        return _mk(a - b)
    if op == "*":
        return _mk(a * b)
    if op == "/":
        if z3.is_int(a):  # int / int in Python is true division
            a, b = z3.ToReal(a), z3.ToReal(b)
        ctx = _CTX
        if ctx is not None and not yn and ctx.mode == "sym" and ctx.scratch.get("recip"):
            r = _recip_of(b, ctx.scratch["recip"])
            if r is not None:
                return _binop(x, Sym(r), "*")
        if ctx is not None and not yn:
            ctx.note_division(b)
        return _mk(a / b)
    raise PathAbort(f"unsupported op {op}")


def _recip_of(t, table):
    """Reciprocal of a term that is a product of variables with declared reciprocals (else None)."""
    tid = t.get_id()
    if tid in table:
        return table[tid]
    c = _const_value(t)
    if c is not None and c != 0:
        return z3.RealVal(str(1 / c))
    if z3.is_mul(t):
        rs = [_recip_of(ch, table) for ch in t.children()]
        if all(r is not None for r in rs):
            out = rs[0]
            for r in rs[1:]:
                out = out * r
            return out
    # canonical form: a single Laurent monomial in variables with declared reciprocals
    ctx = _CTX
    if ctx is not None:
        try:
            nz = ctx.normalizer()
            p = nz.canon(t)
        except Exception:
            return None
        if len(p) == 1:
            (mono, coef), = p.items()
            if coef == 0:
                return None
            inv_of = {v.get_id(): k for k, v in table.items()}     # id(w) -> id(x)
            out = z3.RealVal(str(1 / coef))
            for aid, e in mono:
                if aid in table:
                    base_pos, base_neg = table[aid], nz.atoms.get(aid)
                else:
                    return None
                if e > 0:
                    for _ in range(e):
                        out = out * base_pos
                else:
                    if base_neg is None:
                        return None
                    for _ in range(-e):
                        out = out * base_neg
            return out
    return None


def _pow(x, k):
    if _is_num(x) and _is_num(k):
        return float(x) ** float(k)
    if isinstance(k, Sym):
        raise PathAbort("symbolic exponent")
    kf = Fraction(float(k)).limit_denominator(4)
    if abs(float(kf) - float(k)) > 1e-12:
        raise PathAbort(f"unsupported exponent {k}")
    if kf.denominator == 1:
        n = int(kf)
        if n == 0:
            return 1.0
        base = x
        res = None
        for _ in range(abs(n)):
            res = base if res is None else _binop(res, base, "*")
        return res if n > 0 else _binop(1.0, res, "/")
    if kf.denominator == 2:
        # x**(m/2) = sqrt(x)**m
        r = sym_sqrt(x)
        return _pow(r, kf.numerator)
    if kf.denominator == 4:
        r = sym_sqrt(sym_sqrt(x))
        return _pow(r, kf.numerator)
    raise PathAbort(f"unsupported exponent {k}")


def sym_abs(x):
    if not isinstance(x, Sym):
        return abs(x)
    t = x.t
    ctx = _CTX
    if ctx is not None and ctx.mode == "sym" and ctx.scratch.get("abs_by_sign", True):
        # when the path condition fixes the sign no case split is needed
        try:
            if ctx._check(t < 0, timeout=2000) == "unsat":
                return x
            if ctx._check(t > 0, timeout=2000) == "unsat":
                return _mk(-t)
        except _Deadline:
            raise
    return _mk(z3.If(t >= 0, t, -t))


def sym_sqrt(x):
    if not isinstance(x, Sym):
        return math.sqrt(x)
    ctx = current()
    return ctx.sqrt_of(x)


def sym_exp(x):
    if not isinstance(x, Sym):
        return math.exp(x)
    ctx = current()
    return ctx.exp_of(x)


def sym_trunc(x):
    """Truncation toward zero as an Int term."""
    if not isinstance(x, Sym):
        return int(x)
    t = x.t
    if z3.is_int(t):
        return x
    return _mk(z3.If(t >= 0, z3.ToInt(t), -z3.ToInt(-t)))


def sym_floor(x):
    if not isinstance(x, Sym):
        return math.floor(x)
    t = x.t
    return x if z3.is_int(t) else _mk(z3.ToInt(t))


def sym_round_half_even(x):
    if not isinstance(x, Sym):
        return round(x)
    t = x.t
    if z3.is_int(t):
        return x
    f = z3.ToInt(t)
    frac = t - z3.ToReal(f)
    half = z3.RealVal("1/2")
    return _mk(z3.If(frac < half, f, z3.If(frac > half, f + 1, z3.If(f % 2 == 0, f, f + 1))))


# ---------------------------------------------------------------------------------------------


class SymBool:
    __slots__ = ("t",)

    def __init__(self, t):
        self.t = t

    def __bool__(self):
        return current().branch(self.t)

    def __and__(self, o): return SymBool(z3.And(self.t, _b(o)))
    def __rand__(self, o): return SymBool(z3.And(_b(o), self.t))
    def __or__(self, o): return SymBool(z3.Or(self.t, _b(o)))
    def __ror__(self, o): return SymBool(z3.Or(_b(o), self.t))
    def __invert__(self): return SymBool(z3.Not(self.t))

    # arithmetic: a bool is the integer 0/1 (as in ``1 - 2 * s.startswith("-")``)
    def as_int(self): return Sym(z3.If(self.t, z3.IntVal(1), z3.IntVal(0)))
    def __mul__(self, o): return self.as_int() * o
    def __rmul__(self, o): return o * self.as_int()
    def __add__(self, o): return self.as_int() + o
    def __radd__(self, o): return o + self.as_int()
    def __sub__(self, o): return self.as_int() - o
    def __rsub__(self, o): return o - self.as_int()
    def __neg__(self): return -self.as_int()
    def __eq__(self, o): return SymBool(self.t == _b(o))
    def __ne__(self, o): return SymBool(self.t != _b(o))
    def __hash__(self): return id(self)
    def __repr__(self): return f"SymBool({self.t})"


def _b(x):
    if isinstance(x, SymBool):
        return x.t
    if isinstance(x, z3.BoolRef):
        return x
    if isinstance(x, (bool, np.bool_)):
        return z3.BoolVal(bool(x))
    if isinstance(x, np.ndarray):
        return z3.And(*[_b(e) for e in x.ravel().tolist()]) if x.size else z3.BoolVal(True)
    if isinstance(x, (list, tuple)):
        return z3.And(*[_b(e) for e in x]) if x else z3.BoolVal(True)
    raise PathAbort(f"cannot use {type(x).__name__} as a formula")


def And(*xs):
    xs = [x for x in xs]
    if not any(isinstance(x, (SymBool, z3.BoolRef)) or (isinstance(x, np.ndarray) and x.dtype == object) for x in xs):
        return all(bool(np.all(x)) for x in xs)
    return SymBool(z3.And(*[_b(x) for x in xs]))


def Or(*xs):
    if not any(isinstance(x, (SymBool, z3.BoolRef)) for x in xs):
        return any(bool(x) for x in xs)
    return SymBool(z3.Or(*[_b(x) for x in xs]))


def Not(x):
    if isinstance(x, (SymBool, z3.BoolRef)):
        return SymBool(z3.Not(_b(x)))
    return not x


def Implies(a, b):
    if isinstance(a, (SymBool, z3.BoolRef)) or isinstance(b, (SymBool, z3.BoolRef)):
        return SymBool(z3.Implies(_b(a), _b(b)))
    return (not a) or bool(b)


_SYMARRAY = None


def _symarray_cls():
    global _SYMARRAY
    if _SYMARRAY is None:
        try:
            from .symnp import SymArray
            _SYMARRAY = SymArray
        except Exception:  # pragma: no cover
            _SYMARRAY = False
    return _SYMARRAY


# ---------------------------------------------------------------------------------------------


class Obligation:
    __slots__ = ("label", "cls", "status", "model", "time", "detail")

    def __init__(self, label, cls, status, model=None, t=0.0, detail=None):
        self.label, self.cls, self.status, self.model, self.time, self.detail = (
            label, cls, status, model, t, detail)


class PathResult:
    def __init__(self):
        self.decisions = []
        self.choices = []
        self.obligations = []
        self.status = "ok"        # ok | abort | infeasible | error
        self.abort_reason = None
        self.notes = []
        self.npc = 0
        self.vars = {}
        self.pc_model = None


def _default_value(name, lo, hi):
    """Replay value of a variable the solver left unconstrained and the harness gave no default for: deterministic, distinct
    per name, well inside the declared range (never the degenerate 0 that hides permutations and sign errors)."""
    import zlib
    frac = 0.15 + 0.7 * ((zlib.crc32(name.encode()) % 9973) / 9973.0)
    if lo is not None and hi is not None:
        span = min(float(hi) - float(lo), 40.0)
        mid = min(max(0.0, float(lo)), float(hi)) if float(lo) <= 0.0 <= float(hi) else float(lo)
        v = mid + frac * span if mid + span <= float(hi) else float(lo) + frac * (float(hi) - float(lo))
        return round(v, 4)
    if lo is not None:
        return round(float(lo) + 0.5 + frac, 4)
    if hi is not None:
        return round(float(hi) - 0.5 - frac, 4)
    return round(0.25 + frac, 4)


class Ctx:
    """Execution context of one path (symbolic) or one replay (concrete)."""

    def __init__(self, mode="sym", prefix=(), model=None, choices=None, deadline=None,
                 branch_timeout_ms=5000, oblige_timeout_ms=20000, tier="quick", seed=0):
        self.mode = mode
        self.tier = tier
        self.seed = seed
        self.prefix = list(prefix)
        self.taken = []            # decisions on this path: ('b', bool) / ('c', int)
        self.pending = []          # alternative prefixes discovered
        self.res = PathResult()
        self.deadline = deadline
        self.branch_timeout_ms = branch_timeout_ms
        self.oblige_timeout_ms = oblige_timeout_ms
        self.nfresh = 0
        self.stats = {"branch_queries": 0, "oblige_queries": 0, "solver_time": 0.0,
                      "max_query": 0.0, "decided_branches": 0}
        self.tmpdir = None
        self.events = []           # file-system / warning events recorded by stubs
        self.scratch = {}
        if mode == "sym":
            self.solver = z3.Solver()
            self.solver.set("timeout", branch_timeout_ms)
            self.pc = []
            self._sqrt = {}
            self._exp = {}
            self._expf = z3.Function("exp", z3.RealSort(), z3.RealSort())
            self.vars = {}         # name -> z3 const
        else:
            self.model = dict(model or {})
            self.cchoices = list(choices or [])
            self.cpos = 0
            self.failed = []       # obligations failing concretely
            self.checked = []

    # -- inputs -------------------------------------------------------------------------
    def real(self, name, lo=None, hi=None, nonzero=False, default=None):
        if self.mode == "conc":
            v = self.model.get(name)
            if v is None:
                v = default if default is not None else _default_value(name, lo, hi)
            return float(v)
        if name in self.vars:
            raise RuntimeError(f"duplicate symbolic name {name}")
        v = z3.Real(name)
        self.vars[name] = v
        s = Sym(v)
        if lo is not None:
            self.assume(s >= lo)
        if hi is not None:
            self.assume(s <= hi)
        if nonzero:
            self.assume(s != 0)
        return s

    def int(self, name, lo=None, hi=None, default=0):
        if self.mode == "conc":
            return int(self.model.get(name, default))
        v = z3.Int(name)
        self.vars[name] = v
        s = Sym(v)
        if lo is not None:
            self.assume(s >= lo)
        if hi is not None:
            self.assume(s <= hi)
        return s

    def bool(self, name, default=False):
        if self.mode == "conc":
            return bool(self.model.get(name, default))
        v = z3.Bool(name)
        self.vars[name] = v
        return SymBool(v)

    def real_array(self, name, shape, **kw):
        from .symnp import SymArray
        shape = (shape,) if isinstance(shape, int) else tuple(shape)
        if self.mode == "conc":
            out = np.empty(shape, dtype=float)
        else:
            out = np.empty(shape, dtype=object)
        for idx in np.ndindex(shape):
            out[idx] = self.real(name + "_" + "_".join(map(str, idx)), **kw)
        return out if self.mode == "conc" else out.view(SymArray)

    def normalizer(self):
        from .polynorm import Normalizer
        key = (len(self.scratch.get("recip", {})), len(self._sqrt))
        n = self.scratch.get("_normalizer")
        if n is None or n[0] != key:
            n = (key, Normalizer(self.scratch.get("recip"), self._sqrt))
            self.scratch["_normalizer"] = n
        return n[1]

    def canon_key(self, t):
        from .polynorm import TooBig
        try:
            return self.normalizer().key(t)
        except (TooBig, RecursionError):
            return ("id", t.get_id())

    def near(self, a, b, tol):
        """|a - b| <= tol: by canonical form when the difference is a constant, else by the solver."""
        if self.mode == "conc":
            return bool(np.all(np.abs(np.asarray(a, float) - np.asarray(b, float)) <= tol))
        from .polynorm import difference_constant
        fa, fb = _flat(a), _flat(b)
        if len(fa) != len(fb):
            return False
        parts = []
        for x, y in zip(fa, fb):
            if not isinstance(x, Sym) and not isinstance(y, Sym):
                if abs(float(x) - float(y)) > tol:
                    return False
                continue
            p, q = _coerce(lift(x), lift(y))
            c = difference_constant(self.normalizer(), p, q)
            if c is not None:
                if abs(c) > tol:
                    return False
                continue
            d = p - q
            parts.append(z3.And(d <= _realval(tol), -d <= _realval(tol)))
        return SymBool(z3.And(*parts)) if parts else True

    def approx(self, a, b, rel=1e-7, atol=1e-12):
        """Equality up to float noise in constants: canonical polynomials agree coefficient-wise within rel.

        (Unit factors computed in a different order, or CODATA releases that differ by < 1e-9, must not
        count as a difference; a coefficient that differs by more than ``rel`` leaves the exact equality to the
        solver, whose counterexample is then replayed numerically.)
        """
        if self.mode == "conc":
            fa, fb = np.asarray(a, dtype=float), np.asarray(b, dtype=float)
            if fa.shape != fb.shape:
                return False
            return bool(np.all(np.abs(fa - fb) <= atol + rel * np.maximum(np.abs(fa), np.abs(fb))))
        from .polynorm import TooBig
        fa, fb = _flat(a), _flat(b)
        if len(fa) != len(fb):
            return False
        parts = []
        nz = self.normalizer()
        for x, y in zip(fa, fb):
            if x is None or y is None:
                if x is not y:
                    return False
                continue
            if not isinstance(x, Sym) and not isinstance(y, Sym):
                fx, fy = float(x), float(y)
                if abs(fx - fy) > atol + rel * max(abs(fx), abs(fy)):
                    return False
                continue
            p, q = _coerce(lift(x), lift(y))
            try:
                pa, pb = nz.canon(p), nz.canon(q)
                ok = True
                for m in set(pa) | set(pb):
                    ca, cb = pa.get(m, 0), pb.get(m, 0)
                    if abs(ca - cb) > rel * max(abs(ca), abs(cb)) + (atol if m == () else 0):
                        ok = False
                        break
                if ok:
                    continue
            except (TooBig, RecursionError):
                pass
            parts.append(p == q)
        return SymBool(z3.And(*parts)) if parts else True

    def declare_reciprocal(self, x, name=None):
        """Introduce w with w*x = 1 (x != 0); later divisions by products of x become products of w."""
        if self.mode == "conc":
            return 1.0 / x
        w = z3.Real(name or f"_inv{len(self.scratch.get('recip', {}))}")
        self._add(w * x.t == 1)
        self.scratch.setdefault("recip", {})[x.t.get_id()] = w
        self.scratch.setdefault("_keepalive", []).append(x.t)
        return Sym(w)

    def fresh(self, base="t", sort="real"):
        self.nfresh += 1
        name = f"_{base}{self.nfresh}"
        v = z3.Real(name) if sort == "real" else z3.Int(name)
        return v

    # -- path condition --------------------------------------------------------------
    def _add(self, t):
        self.pc.append(t)
        self.solver.add(t)

    def assume(self, cond):
        """Precondition: restrict the inputs (listed in the evidence by the harness)."""
        if self.mode == "conc":
            if not bool(np.all(cond)):
                raise _Infeasible("precondition false in concrete mode")
            return
        t = _b(cond) if not isinstance(cond, bool) else z3.BoolVal(cond)
        self._add(t)

    def note_division(self, denom):
        # Python would raise ZeroDivisionError / numpy would give inf; exact reals: require != 0
        # as part of the path (stated in every evidence file: inputs that make a symbolic
        # denominator vanish are outside the claim).
        if self.mode == "sym":
            self._add(denom != 0)
            self.stats["div_assumptions"] = self.stats.get("div_assumptions", 0) + 1

    def _check(self, *assumptions, timeout=None):
        if self.deadline is not None and time.time() > self.deadline:
            raise _Deadline()
        if timeout is not None:
            self.solver.set("timeout", timeout)
        t0 = time.time()
        r = self.solver.check(*assumptions)
        dt = time.time() - t0
        self.stats["solver_time"] += dt
        self.stats["max_query"] = max(self.stats["max_query"], dt)
        if timeout is not None:
            self.solver.set("timeout", self.branch_timeout_ms)
        return str(r)

    def branch(self, cond) -> bool:
        if self.mode == "conc":
            raise RuntimeError("symbolic branch in concrete mode")
        cond = z3.simplify(cond)
        if z3.is_true(cond):
            return True
        if z3.is_false(cond):
            return False
        # a condition decided earlier on this path is not asked (or forked on) again
        cid = cond.get_id()
        known = self.scratch.setdefault("_decided", {})
        if cid in known:
            return known[cid]
        i = len(self.taken)
        if i < len(self.prefix):
            kind, d = self.prefix[i]
            if kind != "b":
                raise RuntimeError("non-deterministic harness: decision kind mismatch")
        else:
            # the path condition is satisfiable on an entered path: if one direction is unsat the
            # other one is feasible without asking
            self.stats["branch_queries"] += 1
            rt = self._check(cond)
            if rt == "unsat":
                rf = "sat"
            else:
                self.stats["branch_queries"] += 1
                rf = self._check(z3.Not(cond))
            can_t = rt != "unsat"
            can_f = rf != "unsat"
            if rt == "unknown" or rf == "unknown":
                self.res.notes.append("unknown feasibility at a branch (both directions kept)")
            if not can_t and not can_f:
                raise _Infeasible()
            if can_t and can_f:
                self.pending.append(self.taken + [("b", False)])
                self.stats["decided_branches"] += 1
                d = True
            else:
                d = can_t
        self.taken.append(("b", d))
        self._add(cond if d else z3.Not(cond))
        known[cid] = d
        ncond = z3.simplify(z3.Not(cond))
        known[ncond.get_id()] = not d
        self.scratch.setdefault("_keepalive", []).extend([cond, ncond])   # ids of collected terms are re-used
        return d

    def concretize_int(self, x, limit=64):
        """Fork over the feasible values of a symbolic integer (used where Python needs an index)."""
        for _ in range(limit):
            if self._check() != "sat":
                raise _Infeasible()
            v = self.solver.model().eval(x.t, model_completion=True)
            if not z3.is_int_value(v):
                raise PathAbort("cannot enumerate the values of a symbolic index")
            v = v.as_long()
            if self.branch(x.t == v):
                return v
        raise PathAbort("symbolic index with more than 64 feasible values")

    def fork2(self, can_true_fn, can_false_fn):
        """Generic two-way fork with externally decided feasibility (used by the regex algebra)."""
        i = len(self.taken)
        if i < len(self.prefix):
            kind, d = self.prefix[i]
            if kind != "b":
                raise RuntimeError("non-deterministic harness: decision kind mismatch")
        else:
            can_t = can_true_fn()
            self.stats["branch_queries"] += 1
            if not can_t:
                can_f = True       # the path condition is satisfiable on an entered path
            else:
                can_f = can_false_fn()
                self.stats["branch_queries"] += 1
            if not can_t and not can_f:
                raise _Infeasible()
            if can_t and can_f:
                self.pending.append(self.taken + [("b", False)])
                self.stats["decided_branches"] += 1
                d = True
            else:
                d = can_t
        self.taken.append(("b", d))
        return d

    def choice(self, n_or_list, label=None):
        """Explicit nondeterministic choice over a finite menu (structure, faults, ...)."""
        items = list(range(n_or_list)) if isinstance(n_or_list, int) else list(n_or_list)
        n = len(items)
        if n == 0:
            raise RuntimeError("empty choice")
        if self.mode == "conc":
            k = self.cchoices[self.cpos] if self.cpos < len(self.cchoices) else 0
            self.cpos += 1
            return items[k]
        i = len(self.taken)
        if i < len(self.prefix):
            kind, k = self.prefix[i]
            if kind != "c":
                raise RuntimeError("non-deterministic harness: decision kind mismatch")
        else:
            for alt in range(n - 1, 0, -1):
                self.pending.append(self.taken + [("c", alt)])
            k = 0
        self.taken.append(("c", k))
        self.res.choices.append(k)
        if label is not None:
            self.res.notes.append(f"{label}={items[k]!r}")
        return items[k]

    # -- special functions -------------------------------------------------------------
    def sqrt_of(self, x: Sym):
        key = self.canon_key(x.t)
        if key == ():
            return 0.0
        if len(key) == 1 and key[0][0] == () and key[0][1][0] >= 0:
            return math.sqrt(key[0][1][0] / key[0][1][1])
        if key in self._sqrt:
            return self._sqrt[key][1]
        y = self.fresh("sqrt")
        t = _to_real(x.t)
        self._add(z3.And(y >= 0, y * y == t))
        s = Sym(y)
        self._sqrt[key] = (x.t, s)
        return s

    LOG_SCREEN = math.log(1e-15)

    def _rounded_key(self, key):
        """Canonical key with coefficients rounded to 12 significant digits (float noise in constants)."""
        if not key or key[0] == "id":
            return key
        out = []
        for mono, (n, d) in key:
            v = n / d
            out.append((mono, float(f"{v:.11e}")))
        return tuple(out)

    def exp_of(self, x: Sym):
        key = self._rounded_key(self.canon_key(x.t))
        if key == ():
            return 1.0            # the argument is identically zero
        if len(key) == 1 and key[0][0] == ():
            return math.exp(key[0][1])
        if key in self._exp:
            return self._exp[key][1]
        e = self._expf(_to_real(x.t))
        self._add(e > 0)
        # monotonicity / injectivity instances against earlier exp terms and against exp(0) = 1
        self._add(z3.And(z3.Implies(x.t <= 0, e <= 1), z3.Implies(x.t >= 0, e >= 1),
                         z3.Implies(x.t == 0, e == 1)))
        # the screening threshold used by the overlap code: exp(x) <= 1e-15  <=>  x <= ln(1e-15)
        lg = _realval(self.LOG_SCREEN)
        thr = _realval(1e-15)
        self._add(z3.And((x.t <= lg) == (e <= thr), (x.t < lg) == (e < thr)))
        # a few exact sample points bracket the value (keeps solver models close to the real exponential)
        for pt in (-30.0, -25.0, -20.0, -15.0, -10.0, -5.0, -2.0, -1.0, -0.5):
            v = _realval(math.exp(pt))
            self._add((x.t <= _realval(pt)) == (e <= v))
        for (ot, os) in self._exp.values():
            self._add(z3.And(z3.Implies(ot <= x.t, os.t <= e), z3.Implies(x.t <= ot, e <= os.t)))
        s = Sym(e)
        self._exp[key] = (x.t, s)
        return s

    # -- obligations ------------------------------------------------------------------
    def eq(self, a, b, rtol=1e-9, atol=1e-9):
        """Equality: exact on terms (symbolic), within tolerance (concrete replay)."""
        if self.mode == "conc":
            a = np.asarray(a, dtype=float)
            b = np.asarray(b, dtype=float)
            if a.shape != b.shape:
                return False
            return bool(np.all(np.abs(a - b) <= atol + rtol * np.maximum(np.abs(a), np.abs(b))))
        return _eq_terms(a, b)

    def close(self, a, b, rel):
        """|a-b| <= rel*|b| (for float-computed constants compared with exact references)."""
        if self.mode == "conc":
            return bool(np.all(np.abs(np.asarray(a, float) - np.asarray(b, float))
                               <= rel * np.abs(np.asarray(b, float)) + 1e-300))
        fa, fb = _flat(a), _flat(b)
        if len(fa) != len(fb):
            return False
        parts = []
        for x, y in zip(fa, fb):
            if not isinstance(x, Sym) and not isinstance(y, Sym):
                if abs(float(x) - float(y)) > rel * abs(float(y)) + 1e-300:
                    return False
                continue
            d = x - y
            parts.append(z3.And(lift(d) <= lift(rel * sym_abs(y)), lift(-d) <= lift(rel * sym_abs(y))))
        return SymBool(z3.And(*parts)) if parts else True

    def oblige(self, label, cond, cls=None, detail=None, timeout_ms=None):
        """Register and discharge an obligation at this point of the path."""
        if self.mode == "conc":
            ok = bool(np.all(cond)) if not isinstance(cond, bool) else cond
            self.checked.append((label, cls, ok))
            if not ok:
                self.failed.append((label, cls, detail))
            return ok
        if isinstance(cond, (bool, np.bool_)):
            if cond:
                self.res.obligations.append(Obligation(label, cls, "discharged", detail="ground"))
                return True
            # ground false: any model of the PC is a counterexample
            t = z3.BoolVal(False)
        else:
            t = _b(cond)
        self.stats["oblige_queries"] += 1
        t0 = time.time()
        self.solver.push()
        try:
            self.solver.add(z3.Not(t))
            r = self._check(timeout=timeout_ms or self.oblige_timeout_ms)
            dt = time.time() - t0
            if r == "unsat":
                self.res.obligations.append(Obligation(label, cls, "discharged", t=dt, detail=detail))
                return True
            if r == "sat":
                m = self._extract_model(self.solver.model())
                self.res.obligations.append(Obligation(label, cls, "cex", model=m, t=dt, detail=detail))
                return False
            self.res.obligations.append(Obligation(label, cls, "unknown", t=dt, detail=detail))
            return None
        finally:
            self.solver.pop()

    def record(self, label, cls, res, model=None, detail=None):
        """Register an obligation decided outside the arithmetic solver (regex algebra, EUF...)."""
        if self.mode == "conc":
            return
        if res == "unreach":
            self.res.obligations.append(Obligation(label, cls, "unreach"))
        elif res is True:
            self.res.obligations.append(Obligation(label, cls, "discharged", detail=detail))
        elif res is False:
            self.res.obligations.append(Obligation(label, cls, "cex", model=dict(model or {}), detail=detail))
        else:
            self.res.obligations.append(Obligation(label, cls, "unknown", detail=detail))

    def reachable(self, label="reach"):
        """Vacuity guard: the current point must be reachable (PC satisfiable)."""
        if self.mode == "conc":
            return True
        r = self._check()
        ok = r == "sat"
        self.res.obligations.append(Obligation(label, "reachability", "reach" if ok else "unreach"))
        return ok

    def _extract_model(self, m):
        out = {}
        for name, v in self.vars.items():
            if m.get_interp(v) is None:
                # the solver did not need this variable: the replay keeps the harness's own default for it (distinct,
                # non-degenerate values) instead of z3's completion to 0
                continue
            val = m.eval(v, model_completion=True)
            out[name] = _model_value(val)
        return out

    def pc_model(self):
        r = self._check()
        if r == "unknown":
            return "unknown"
        if r != "sat":
            return None
        return self._extract_model(self.solver.model())

    # -- files ---------------------------------------------------------------------
    def tmp_path(self, name):
        """A file path: in-memory file system (symbolic mode) / real temp dir (concrete mode)."""
        if self.mode == "sym":
            return "/symx-mem/" + name
        if self.tmpdir is None:
            import tempfile
            self.tmpdir = tempfile.mkdtemp(prefix="symx-replay-")
        import os
        return os.path.join(self.tmpdir, name)

    def read_text(self, path):
        if self.mode == "sym":
            return self.scratch.get("memfs", {}).get(path)
        try:
            with open(path) as fh:
                return fh.read()
        except FileNotFoundError:
            return None

    def write_text(self, path, text):
        if self.mode == "sym":
            self.scratch.setdefault("memfs", {})[path] = text
        else:
            with open(path, "w") as fh:
                fh.write(text)

    def cleanup(self):
        if self.tmpdir is not None:
            import shutil
            shutil.rmtree(self.tmpdir, ignore_errors=True)
            self.tmpdir = None

    # -- misc ----------------------------------------------------------------------
    def note(self, s):
        if self.mode == "sym":
            self.res.notes.append(s)

    def event(self, *ev):
        self.events.append(tuple(ev))


def _model_value(val):
    if z3.is_true(val):
        return True
    if z3.is_false(val):
        return False
    if z3.is_int_value(val):
        return val.as_long()
    if z3.is_rational_value(val):
        return float(Fraction(val.numerator_as_long(), val.denominator_as_long()))
    if z3.is_algebraic_value(val):
        a = val.approx(20)
        return float(Fraction(a.numerator_as_long(), a.denominator_as_long()))
    try:
        return float(str(val))
    except Exception:
        return 0.0


def _flat(a):
    if isinstance(a, np.ndarray):
        return a.ravel().tolist()
    if isinstance(a, (list, tuple)):
        out = []
        for e in a:
            out.extend(_flat(e))
        return out
    return [a]


def _poly_zero(t):
    """True if the term normalises to 0 as a polynomial (sound algebraic identity check)."""
    ctx = _CTX
    if ctx is not None and ctx.mode == "sym":
        try:
            from .polynorm import TooBig
            try:
                p = ctx.normalizer().canon(t)
                if not p:
                    return True
                return False if len(p) < 2000 else False
            except TooBig:
                pass
        except RecursionError:
            pass
    try:
        r = z3.simplify(t, som=True, hoist_mul=False)
    except z3.Z3Exception:
        return False
    c = _const_value(r)
    return c is not None and c == 0


def _eq_terms(a, b):
    if isinstance(a, np.ndarray) or isinstance(b, np.ndarray) or isinstance(a, (list, tuple)) \
            or isinstance(b, (list, tuple)):
        sa = np.shape(np.asarray(a, dtype=object)) if not isinstance(a, np.ndarray) else a.shape
        sb = np.shape(np.asarray(b, dtype=object)) if not isinstance(b, np.ndarray) else b.shape
        if sa != sb:
            return False
    fa, fb = _flat(a), _flat(b)
    if len(fa) != len(fb):
        return False
    parts = []
    for x, y in zip(fa, fb):
        if x is None or y is None:
            if x is not y:
                return False
            continue
        if not isinstance(x, (Sym, SymBool)) and not isinstance(y, (Sym, SymBool)):
            if isinstance(x, str) or isinstance(y, str):
                if x != y:
                    return False
                continue
            fx, fy = float(x), float(y)
            if not (abs(fx - fy) <= 1e-12 * max(1.0, abs(fx), abs(fy))):
                return False
            continue
        if isinstance(x, SymBool) or isinstance(y, SymBool):
            parts.append(_b(x) == _b(y))
            continue
        p, q = _coerce(lift(x), lift(y))
        if p.get_id() == q.get_id():
            continue
        if _poly_zero(p - q):
            continue
        parts.append(p == q)
    if not parts:
        return True
    return SymBool(z3.And(*parts))


# ---------------------------------------------------------------------------------------------


class Explorer:
    """Depth-first exploration of all solver-feasible paths of a harness by re-execution."""

    def __init__(self, fn, params=None, tier="quick", seed=0, budget_s=120.0, max_paths=20000,
                 branch_timeout_ms=5000, oblige_timeout_ms=20000, shard=None, stop_after_cex=None):
        self.stop_after_cex = stop_after_cex
        self.shard = shard          # (k, n): explore only every n-th alternative of the root path
        self.fn = fn
        self.params = dict(params or {})
        self.tier = tier
        self.seed = seed
        self.budget_s = budget_s
        self.max_paths = max_paths
        self.bt = branch_timeout_ms
        self.ot = oblige_timeout_ms
        self.paths = []
        self.stats = {"branch_queries": 0, "oblige_queries": 0, "solver_time": 0.0,
                      "max_query": 0.0, "decided_branches": 0}
        self.not_explored = 0

    def run(self):
        t0 = time.time()
        deadline = t0 + self.budget_s
        work = [[]]
        while work:
            if time.time() > deadline or len(self.paths) >= self.max_paths:
                self.not_explored = len(work)
                break
            prefix = work.pop()
            ctx = Ctx("sym", prefix=prefix, deadline=deadline, branch_timeout_ms=self.bt,
                      oblige_timeout_ms=self.ot, tier=self.tier, seed=self.seed)
            _set_current(ctx)
            try:
                self.fn(ctx, **self.params)
                m = ctx.pc_model()
                if m == "unknown":
                    m = None
                    ctx.res.notes.append("path condition satisfiability unknown (no reachability witness)")
                    ctx.res.obligations.append(Obligation("path", "reachability", "reach-unknown"))
                    ctx.res.pc_model = None
                    m = "skip"
                else:
                    ctx.res.pc_model = m
                if m is None:
                    ctx.res.obligations.append(Obligation("path", "reachability", "unreach"))
            except _Infeasible:
                ctx.res.status = "infeasible"
            except _Deadline:
                ctx.res.status = "deadline"
                self.not_explored += 1
            except PathAbort as exc:
                ctx.res.status = "abort"
                ctx.res.abort_reason = str(exc)
            except z3.Z3Exception as exc:
                ctx.res.status = "abort"
                ctx.res.abort_reason = f"z3: {exc}"
            except Exception as exc:
                # the harness could not complete: the code under test raised or returned something the
                # oracle cannot process.  A changed private interface is inconclusive; anything else is
                # a counterexample candidate that must reproduce concretely (same exception type).
                import traceback as _tb
                tb = _tb.extract_tb(exc.__traceback__)
                where = f"{tb[-1].filename}:{tb[-1].lineno}" if tb else "?"
                msg = f"{type(exc).__name__}: {exc}"
                iface = isinstance(exc, (AttributeError, ImportError, NameError)) or (
                    isinstance(exc, TypeError) and any(w in str(exc) for w in ("positional argument", "keyword argument",
                                                                               "required positional", "takes ")))
                if iface:
                    ctx.res.status = "abort"
                    ctx.res.abort_reason = f"interface of the code under test differs from what the harness calls ({msg} at {where})"
                else:
                    ctx.res.status = "error"
                    try:
                        m = ctx.pc_model()
                    except BaseException:
                        m = None
                    ctx.res.obligations.append(Obligation("no-unexpected-exception", type(exc).__name__, "cex",
                                                          model=m if isinstance(m, dict) else {}, detail=f"{msg} at {where}"))
            finally:
                _set_current(None)
            ctx.res.decisions = list(ctx.taken)
            ctx.res.npc = len(ctx.pc)
            ctx.res.events = list(ctx.events)
            for k in ("branch_queries", "oblige_queries", "solver_time", "decided_branches"):
                self.stats[k] += ctx.stats[k]
            self.stats["max_query"] = max(self.stats["max_query"], ctx.stats["max_query"])
            is_root = not prefix
            if self.shard is not None and is_root:
                k, n = self.shard
                work.extend(p for j, p in enumerate(ctx.pending) if j % n == k)
                if k != 0:
                    continue        # the root path itself belongs to shard 0 (here: discovery only)
            else:
                work.extend(ctx.pending)
            if ctx.res.status != "infeasible":
                self.paths.append(ctx.res)
            if self.stop_after_cex is not None:
                ncex = sum(1 for p in self.paths if any(o.status == "cex" for o in p.obligations))
                if ncex >= self.stop_after_cex:
                    self.not_explored += len(work)
                    break
        self.wall = time.time() - t0
        return self


def run_concrete(fn, params, model, choices, tier="quick", seed=0):
    """Run the harness on plain numbers without stubs (replay / cross-validation)."""
    ctx = Ctx("conc", model=model, choices=choices, tier=tier, seed=seed)
    _set_current(ctx)
    status = "ok"
    err = None
    try:
        fn(ctx, **(params or {}))
    except _Infeasible:
        status = "infeasible"
    except PathAbort as exc:
        status = "abort"
        err = str(exc)
    finally:
        _set_current(None)
        ctx.cleanup()
    return ctx, status, err
