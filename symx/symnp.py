"""symnp: a stand-in for the name ``np`` inside the iodata module under analysis.

Delegates to numpy, but every array that the analysed code creates for ``dtype=float`` is an
object array (:class:`SymArray`) so that symbolic elements survive; functions that numpy
implements in C on floats (sqrt, exp, clip, round, norm, det, inv, cross, isclose, ...) are
re-implemented on terms.  This table is part of the model and is listed in the evidence.
"""

from __future__ import annotations

import builtins
import math

import numpy as np

from . import core
from .core import PathAbort, Sym, SymBool, sym_abs, sym_exp, sym_sqrt


def _has_sym(a):
    if isinstance(a, (Sym, SymBool)):
        return True
    if isinstance(a, np.ndarray):
        if a.dtype != object:
            return False
        return any(isinstance(e, (Sym, SymBool)) for e in a.ravel().tolist())
    if isinstance(a, (list, tuple)):
        return any(_has_sym(e) for e in a)
    return False


def _fix_key(key):
    """Index keys that are object arrays of plain integers become real integer arrays."""
    if isinstance(key, np.ndarray) and key.dtype == object:
        if _has_sym(key):
            raise PathAbort("symbolic array used as index")
        return np.asarray(key.tolist(), dtype=int).reshape(key.shape)
    if isinstance(key, tuple):
        return tuple(_fix_key(k) for k in key)
    return key


class SymArray(np.ndarray):
    """Object ndarray holding Sym / float elements."""

    _kind = None        # 'f' / 'i': the numpy dtype this array stands for (strings assigned to it are parsed)

    def __array_finalize__(self, obj):
        if obj is not None:
            self._kind = getattr(obj, "_kind", None)

    def __getitem__(self, key):
        return np.ndarray.__getitem__(self, _fix_key(key))

    def __setitem__(self, key, value):
        if self.dtype == object and self._kind in ("f", "i"):
            value = self._parse_strings(value)
        np.ndarray.__setitem__(self, _fix_key(key), value)

    def _parse_strings(self, value):
        from .tokens import symfloat, symint
        conv = symfloat if self._kind == "f" else symint
        if isinstance(value, (str, np.str_)):
            return conv(builtins.str(value))
        if isinstance(value, (list, tuple)) and any(isinstance(v, (str, np.str_, list, tuple)) for v in value):
            return [self._parse_strings(v) for v in value]
        if isinstance(value, np.ndarray) and value.dtype.kind in "US":
            out = np.empty(value.shape, dtype=object)
            for idx in np.ndindex(value.shape):
                out[idx] = conv(builtins.str(value[idx]))
            return out
        return value

    def astype(self, dtype, *args, **kwargs):
        if self.dtype != object:
            return np.ndarray.astype(self, dtype, *args, **kwargs)
        if is_float_dtype(dtype):
            if any(isinstance(e, str) for e in self.ravel().tolist()):
                from .tokens import symfloat
                out = np.empty(self.shape, dtype=object)
                for idx in np.ndindex(self.shape):
                    e = self[idx]
                    out[idx] = symfloat(e) if isinstance(e, str) else e
                return out.view(SymArray)
            return self.copy()
        if is_int_dtype(dtype):
            out = np.empty(self.shape, dtype=object)
            anysym = False
            for idx in np.ndindex(self.shape):
                e = self[idx]
                if isinstance(e, Sym):
                    out[idx] = core.sym_trunc(e)
                    anysym = True
                elif isinstance(e, str):
                    from .tokens import symint
                    out[idx] = symint(e)
                    anysym = anysym or isinstance(out[idx], Sym)
                else:
                    out[idx] = builtins.int(e)
            if not anysym:
                return np.asarray(out.tolist(), dtype=int).reshape(self.shape)
            return out.view(SymArray)
        if dtype is bool or dtype == np.bool_:
            if _has_sym(self):
                raise PathAbort("astype(bool) on symbolic array")
            return np.asarray(self.tolist(), dtype=bool).reshape(self.shape)
        if dtype is object or dtype == object:
            return self.copy()
        if dtype is str or dtype is np.str_ or (isinstance(dtype, np.dtype) and dtype.kind == "U"):
            return np.asarray(self.tolist(), dtype=dtype)
        raise PathAbort(f"astype({dtype}) on symbolic array")

    def round(self, decimals=0, out=None):
        if decimals == 0:
            return _map(core.sym_round_half_even, self)
        return self.copy()

    def _unwrap(self, r):
        if isinstance(r, np.ndarray) and r.shape == ():
            return r.item()
        return r

    def sum(self, *a, **k):
        if self.size == 0 and not a and not k:
            return 0.0
        return self._unwrap(np.ndarray.sum(self, *a, **k))

    def prod(self, *a, **k):
        return self._unwrap(np.ndarray.prod(self, *a, **k))

    def min(self, *a, **k):
        return self._unwrap(np.ndarray.min(self, *a, **k))

    def max(self, *a, **k):
        return self._unwrap(np.ndarray.max(self, *a, **k))

    def all(self, *a, **k):
        return self._unwrap(np.ndarray.all(self, *a, **k))

    def any(self, *a, **k):
        return self._unwrap(np.ndarray.any(self, *a, **k))

    def dot(self, other):
        return symnp.dot(self, other)

    def __deepcopy__(self, memo):
        return self.copy()

    def __reduce__(self):
        if _has_sym(self):
            raise PathAbort("pickling symbolic array")
        return np.ndarray.__reduce__(self)


_FLOAT_NAMES = {"float", "float64", "f8", "d", "double"}
_INT_NAMES = {"int", "int64", "i8", "int32", "i4", "intp", "l"}


def is_float_dtype(dtype):
    from .tokens import symfloat
    if dtype is None:
        return False
    if dtype is float or dtype is symfloat or dtype is np.float64 or dtype is np.floating:
        return True
    if isinstance(dtype, str):
        return dtype in _FLOAT_NAMES
    try:
        return np.dtype(dtype).kind == "f"
    except TypeError:
        return False


def is_int_dtype(dtype):
    from .tokens import symint
    if dtype is None:
        return False
    if dtype is int or dtype is symint or dtype is np.int64 or dtype is np.integer:
        return True
    if isinstance(dtype, str):
        return dtype in _INT_NAMES
    try:
        return np.dtype(dtype).kind in "iu"
    except TypeError:
        return False


def _obj(a, parse=None):
    """Object array from anything array-like; strings are parsed with ``parse``."""
    if isinstance(a, np.ndarray):
        if a.dtype == object:
            out = a.copy()
        elif a.dtype.kind in "US":
            out = np.empty(a.shape, dtype=object)
            for idx in np.ndindex(a.shape):
                out[idx] = builtins.str(a[idx])
        else:
            out = a.astype(object)
    elif isinstance(a, (Sym, SymBool)) or np.isscalar(a) or a is None:
        out = np.empty((), dtype=object)
        out[()] = a
    else:
        a = _to_nested_list(a)
        out = _nested_to_obj(a)
    if parse is not None:
        for idx in np.ndindex(out.shape):
            e = out[idx]
            if isinstance(e, (str, bytes)):
                out[idx] = parse(e)
            elif isinstance(e, (np.floating, np.integer)):
                out[idx] = e.item()
    return out.view(SymArray)


def _to_nested_list(a):
    if isinstance(a, np.ndarray):
        return [_to_nested_list(e) if isinstance(e, (np.ndarray, list, tuple)) else e for e in a]
    if isinstance(a, (list, tuple)) or hasattr(a, "__iter__") and not isinstance(a, (str, bytes, Sym)):
        return [_to_nested_list(e) if isinstance(e, (np.ndarray, list, tuple)) else e for e in a]
    return a


def _shape_of(a):
    if isinstance(a, list):
        if not a:
            return (0,)
        s0 = _shape_of(a[0])
        for e in a[1:]:
            if _shape_of(e) != s0:
                raise ValueError("setting an array element with a sequence. The requested array has an "
                                 "inhomogeneous shape")
        return (len(a),) + s0
    return ()


def _nested_to_obj(a):
    shape = _shape_of(a)
    out = np.empty(shape, dtype=object)
    if shape == ():
        out[()] = a
        return out
    for idx in np.ndindex(shape):
        e = a
        for i in idx:
            e = e[i]
        out[idx] = e
    return out


def _map(f, a):
    if isinstance(a, np.ndarray):
        out = np.empty(a.shape, dtype=object)
        for idx in np.ndindex(a.shape):
            out[idx] = f(a[idx])
        if a.shape == ():
            return out[()]
        return out.view(SymArray)
    if isinstance(a, (list, tuple)):
        return _map(f, _obj(a))
    return f(a)


def _has_token(x):
    from .tokens import is_pua
    return any(is_pua(ch) for ch in x)


def _plain(a):
    """Return a plain numpy array if nothing symbolic is inside (else None)."""
    if isinstance(a, np.ndarray) and a.dtype != object:
        return a
    if _has_sym(a):
        return None
    try:
        return np.asarray(a.tolist() if isinstance(a, np.ndarray) else a, dtype=float)
    except (TypeError, ValueError):
        return None


class _Linalg:
    def __getattr__(self, name):
        return getattr(np.linalg, name)

    def norm(self, a, *args, **kwargs):
        p = _plain(a)
        if p is not None:
            return np.linalg.norm(p, *args, **kwargs)
        axis = kwargs.get("axis") if not args and set(kwargs) <= {"axis"} else None
        if isinstance(axis, (int, np.integer)) and _obj(a).ndim == 2:
            # Euclidean length of every row (axis=1) / column (axis=0) of a matrix
            m = _obj(a)
            m = m if axis in (1, -1) else m.T
            out = np.empty(m.shape[0], dtype=object)
            for i in range(m.shape[0]):
                acc = 0.0
                for e in m[i].tolist():
                    acc = acc + e * e
                out[i] = sym_sqrt(acc)
            return out.view(SymArray)
        if args or kwargs:
            raise PathAbort("linalg.norm with options on symbolic array")
        a = _obj(a)
        s = 0.0
        for e in a.ravel().tolist():
            s = s + e * e
        return sym_sqrt(s)

    def det(self, a):
        p = _plain(a)
        if p is not None:
            return np.linalg.det(p)
        a = _obj(a)
        n = a.shape[0]
        if a.shape != (n, n) or n > 3:
            raise PathAbort("det of symbolic matrix larger than 3x3")
        if n == 1:
            return a[0, 0]
        if n == 2:
            return a[0, 0] * a[1, 1] - a[0, 1] * a[1, 0]
        return (a[0, 0] * (a[1, 1] * a[2, 2] - a[1, 2] * a[2, 1])
                - a[0, 1] * (a[1, 0] * a[2, 2] - a[1, 2] * a[2, 0])
                + a[0, 2] * (a[1, 0] * a[2, 1] - a[1, 1] * a[2, 0]))

    def inv(self, a):
        p = _plain(a)
        if p is not None:
            return np.linalg.inv(p)
        a = _obj(a)
        if a.shape != (3, 3):
            raise PathAbort("inv of symbolic matrix other than 3x3")
        d = self.det(a)
        out = np.empty((3, 3), dtype=object)
        for i in range(3):
            for j in range(3):
                i1, i2 = [k for k in range(3) if k != i]
                j1, j2 = [k for k in range(3) if k != j]
                cof = a[i1, j1] * a[i2, j2] - a[i1, j2] * a[i2, j1]
                if (i + j) % 2:
                    cof = -cof
                out[j, i] = cof / d
        return out.view(SymArray)


class SymNP:
    """Proxy for the numpy module (see module docstring)."""

    linalg = _Linalg()
    ndarray = np.ndarray
    pi = np.pi
    nan = np.nan
    newaxis = np.newaxis

    def __getattr__(self, name):
        return getattr(np, name)

    # -- creation -----------------------------------------------------------------------
    def array(self, a, dtype=None, copy=True, **kw):
        from .tokens import symfloat, symint
        if is_float_dtype(dtype):
            return _obj(a, parse=symfloat)
        if is_int_dtype(dtype):
            o = _obj(a, parse=symint)
            return o.astype(int)
        if dtype is None:
            if _has_sym(a) or (isinstance(a, np.ndarray) and a.dtype == object):
                return _obj(a)
            r = np.array(a, **kw)
            if r.dtype.kind == "f":
                return r.astype(object).view(SymArray)
            if r.dtype.kind == "U" and r.size and any(_has_token(x) for x in r.ravel().tolist()):
                # words of a text file, some of them placeholder tokens: keep them convertible (astype)
                return r.astype(object).view(SymArray)
            return r
        if dtype is object:
            return _obj(a)
        if _has_sym(a):
            raise PathAbort(f"np.array of symbolic data with dtype {dtype}")
        return np.array(a, dtype=dtype, **kw)

    def asarray(self, a, dtype=None, **kw):
        if isinstance(a, SymArray) and a.dtype == object and (dtype is None or is_float_dtype(dtype)):
            return a
        return self.array(a, dtype=dtype)

    def copy(self, a):
        if isinstance(a, np.ndarray):
            return a.copy()
        return self.array(a)

    def _filled(self, shape, dtype, value):
        if dtype is None or is_float_dtype(dtype):
            out = np.empty(shape, dtype=object)
            out[...] = value
            out = out.view(SymArray)
            out._kind = "f"
            return out
        if is_int_dtype(dtype):
            # integer work arrays may receive symbolic integers (bond partners, serial numbers);
            # attribute converters turn them into real int arrays again when everything is concrete
            out = np.empty(shape, dtype=object)
            out[...] = builtins.int(value)
            out = out.view(SymArray)
            out._kind = "i"
            return out
        if dtype is object or dtype == np.dtype(object):
            # an explicit object array (e.g. words of a text table collected before conversion): keep it convertible
            out = np.empty(shape, dtype=object)
            if value != 0.0:
                out[...] = value
            return out.view(SymArray)
        return None

    def zeros(self, shape, dtype=None, **kw):
        r = self._filled(shape, dtype, 0.0)
        return r if r is not None else np.zeros(shape, dtype=_real_dtype(dtype), **kw)

    def ones(self, shape, dtype=None, **kw):
        r = self._filled(shape, dtype, 1.0)
        return r if r is not None else np.ones(shape, dtype=_real_dtype(dtype), **kw)

    def empty(self, shape, dtype=None, **kw):
        # uninitialised memory is modelled as NaN-like poison: reading it before writing aborts
        r = self._filled(shape, dtype, 0.0)
        return r if r is not None else np.empty(shape, dtype=_real_dtype(dtype), **kw)

    def full(self, shape, fill_value, dtype=None, **kw):
        if dtype is None and isinstance(fill_value, (float, Sym)) or is_float_dtype(dtype):
            out = np.empty(shape, dtype=object)
            out[...] = fill_value
            return out.view(SymArray)
        return np.full(shape, fill_value, dtype=_real_dtype(dtype), **kw)

    def zeros_like(self, a, dtype=None):
        if dtype is None and isinstance(a, np.ndarray) and (a.dtype == object or a.dtype.kind == "f"):
            return self.zeros(a.shape)
        return np.zeros_like(a, dtype=_real_dtype(dtype))

    def fromstring(self, s, dtype=float, sep=""):
        from .tokens import symfloat, symint
        words = s.split() if sep.strip() == "" else [w for w in s.split(sep) if w.strip()]
        if is_int_dtype(dtype):
            return self.array([symint(w) for w in words], dtype=int)
        return _obj([symfloat(w) for w in words])

    # -- combination -------------------------------------------------------------------
    def _combine(self, name, arrays, *args, **kwargs):
        arrays = list(arrays)
        if any(isinstance(a, np.ndarray) and a.dtype == object for a in arrays) or _has_sym(arrays):
            arrays = [_obj(a) if not isinstance(a, np.ndarray) else a for a in arrays]
            return getattr(np, name)(arrays, *args, **kwargs).view(SymArray)
        r = getattr(np, name)(arrays, *args, **kwargs)
        if r.dtype.kind == "f":
            return r.astype(object).view(SymArray)
        return r

    def concatenate(self, arrays, *a, **k): return self._combine("concatenate", arrays, *a, **k)
    def hstack(self, arrays, *a, **k): return self._combine("hstack", arrays, *a, **k)
    def vstack(self, arrays, *a, **k): return self._combine("vstack", arrays, *a, **k)
    def stack(self, arrays, *a, **k): return self._combine("stack", arrays, *a, **k)

    def reshape(self, a, shape, **k):
        return (a if isinstance(a, np.ndarray) else self.array(a)).reshape(shape)

    def repeat(self, a, *args, **k):
        r = np.repeat(a, *args, **k)
        return r.view(SymArray) if r.dtype == object else r

    # -- elementwise math --------------------------------------------------------------
    def sqrt(self, a):
        p = _plain(a)
        if p is not None:
            r = np.sqrt(p)
            return r if r.shape == () else r.astype(object).view(SymArray)
        return _map(sym_sqrt, a)

    def exp(self, a):
        p = _plain(a)
        if p is not None:
            r = np.exp(p)
            return r if r.shape == () else r.astype(object).view(SymArray)
        return _map(sym_exp, a)

    def abs(self, a):
        p = _plain(a)
        if p is not None:
            r = np.abs(p)
            return r if r.shape == () else r.astype(object).view(SymArray)
        return _map(sym_abs, a)

    absolute = abs
    fabs = abs

    def round(self, a, decimals=0):
        if isinstance(a, Sym):
            return a.__round__(decimals)
        p = _plain(a)
        if p is not None:
            r = np.round(p, decimals)
            return r if r.shape == () else r.astype(object).view(SymArray)
        if decimals == 0:
            return _map(core.sym_round_half_even, a)
        return _obj(a)

    around = round

    def clip(self, a, lo, hi):
        p = _plain(a)
        if p is not None and not isinstance(lo, Sym) and not isinstance(hi, Sym):
            return np.clip(p, lo, hi).astype(object).view(SymArray)

        def c(e):
            if e < lo:
                return lo
            if e > hi:
                return hi
            return e
        return _map(c, _obj(a))

    # -- reductions --------------------------------------------------------------------
    def sum(self, a, *args, **kw):
        if isinstance(a, np.ndarray):
            return a.sum(*args, **kw) if isinstance(a, SymArray) else np.sum(a, *args, **kw)
        if _has_sym(a):
            return _obj(a).sum(*args, **kw)
        return np.sum(a, *args, **kw)

    def prod(self, a, *args, **kw):
        if _has_sym(a) or (isinstance(a, np.ndarray) and a.dtype == object):
            return _obj(a).prod(*args, **kw)
        return np.prod(a, *args, **kw)

    def _minmax(self, a, which, *args, **kw):
        if _has_sym(a):
            return getattr(_obj(a), which)(*args, **kw)
        p = _plain(a)
        if p is not None:
            return getattr(np, which)(p, *args, **kw)
        return getattr(np, which)(a, *args, **kw)

    def min(self, a, *args, **kw): return self._minmax(a, "min", *args, **kw)
    def max(self, a, *args, **kw): return self._minmax(a, "max", *args, **kw)
    amin = min
    amax = max

    def all(self, a, *args, **kw):
        if isinstance(a, SymBool):
            return bool(a)
        return np.all(a, *args, **kw)

    def dot(self, a, b):
        pa, pb = _plain(a), _plain(b)
        if pa is not None and pb is not None:
            r = np.dot(pa, pb)
            return r if np.ndim(r) == 0 else r.astype(object).view(SymArray)
        a = a if isinstance(a, np.ndarray) else _obj(a)
        b = b if isinstance(b, np.ndarray) else _obj(b)
        if a.dtype != object:
            a = a.astype(object)
        if b.dtype != object:
            b = b.astype(object)
        r = _dot_obj(a, b)
        if isinstance(r, np.ndarray):
            return r.view(SymArray)
        return r

    def cross(self, a, b):
        pa, pb = _plain(a), _plain(b)
        if pa is not None and pb is not None:
            return np.cross(pa, pb).astype(object).view(SymArray)
        a, b = _obj(a), _obj(b)
        if a.shape != (3,) or b.shape != (3,):
            raise PathAbort("cross on non-3-vectors")
        out = np.empty(3, dtype=object)
        out[0] = a[1] * b[2] - a[2] * b[1]
        out[1] = a[2] * b[0] - a[0] * b[2]
        out[2] = a[0] * b[1] - a[1] * b[0]
        return out.view(SymArray)

    def isclose(self, a, b, rtol=1e-05, atol=1e-08):
        pa, pb = _plain(a), _plain(b)
        if pa is not None and pb is not None:
            return np.isclose(pa, pb, rtol, atol)

        def f(x, y):
            return sym_abs(x - y) <= atol + rtol * sym_abs(y)
        a, b = np.broadcast_arrays(_obj(a), _obj(b))
        out = np.empty(a.shape, dtype=bool)
        for idx in np.ndindex(a.shape):
            out[idx] = bool(f(a[idx], b[idx]))
        return out

    def allclose(self, a, b, rtol=1e-05, atol=1e-08):
        return bool(np.all(self.isclose(a, b, rtol, atol)))

    def frompyfunc(self, func, nin, nout):
        uf = np.frompyfunc(func, nin, nout)

        def wrapped(*args):
            r = uf(*args)
            return r.view(SymArray) if isinstance(r, np.ndarray) else r
        return wrapped

    def unique(self, a, *args, **kw):
        if _has_sym(a):
            raise PathAbort("np.unique on symbolic data")
        p = a
        if isinstance(a, np.ndarray) and a.dtype == object:
            p = np.asarray(a.tolist())
        return np.unique(p, *args, **kw)


def _real_dtype(dtype):
    from .tokens import symfloat, symint
    if dtype is symfloat:
        return float
    if dtype is symint:
        return int
    return dtype


def _dot_obj(a, b):
    if a.ndim == 1 and b.ndim == 1:
        s = 0.0
        for x, y in zip(a.tolist(), b.tolist()):
            s = s + x * y
        return s
    if a.ndim == 2 and b.ndim == 1:
        out = np.empty(a.shape[0], dtype=object)
        for i in range(a.shape[0]):
            out[i] = _dot_obj(a[i], b)
        return out
    if a.ndim == 1 and b.ndim == 2:
        out = np.empty(b.shape[1], dtype=object)
        for j in range(b.shape[1]):
            out[j] = _dot_obj(a, b[:, j])
        return out
    if a.ndim == 2 and b.ndim == 2:
        if a.shape[1] != b.shape[0]:
            raise ValueError(f"shapes {a.shape} and {b.shape} not aligned")
        out = np.empty((a.shape[0], b.shape[1]), dtype=object)
        for i in range(a.shape[0]):
            for j in range(b.shape[1]):
                out[i, j] = _dot_obj(a[i], b[:, j])
        return out
    raise PathAbort("dot with ndim > 2 on symbolic arrays")


symnp = SymNP()
