"""Job runner: explores harnesses on a process pool, confirms counterexamples by replay on the
unpatched code in a fresh interpreter, matches known findings, writes evidence."""

from __future__ import annotations

import concurrent.futures as cf
import fnmatch
import importlib
import json
import multiprocessing as mp
import os
import re
import subprocess
import sys
import time
import traceback

VERIF = os.path.dirname(os.path.dirname(os.path.abspath(__file__)))
REPLAYS = os.path.join(VERIF, "replays")
EVIDENCE = os.path.join(VERIF, "evidence")
KNOWN = os.path.join(VERIF, "known_findings.json")


REPO = os.environ.get("SYMX_REPO", "/repo").rstrip("/")     # a scratch worktree when evaluating seeded changes


def job(prop, name, module, fn, params=None, budget_s=60.0, expect="hold", max_paths=20000,
        oblige_timeout_ms=20000, branch_timeout_ms=5000, validate=True, kind="symx", **extra):
    d = dict(prop=prop, name=name, module=module, fn=fn, params=params or {}, budget_s=budget_s,
             expect=expect, max_paths=max_paths, oblige_timeout_ms=oblige_timeout_ms,
             branch_timeout_ms=branch_timeout_ms, validate=validate, kind=kind)
    d.update(extra)
    return d


# ---------------------------------------------------------------------------------------------
# worker side


def _monitor_start(store):
    try:
        mon = sys.monitoring
    except AttributeError:
        return None
    tool = 3
    try:
        mon.use_tool_id(tool, "symx-cov")
    except ValueError:
        pass

    def on_start(code, offset):
        fn = code.co_filename
        if fn.startswith(REPO + "/iodata") and "/test/" not in fn:
            store.add(f"{fn[len(REPO) + 1:]}:{code.co_qualname}")
        return mon.DISABLE
    mon.register_callback(tool, mon.events.PY_START, on_start)
    mon.set_events(tool, mon.events.PY_START)
    return tool


def _monitor_stop(tool):
    if tool is None:
        return
    mon = sys.monitoring
    mon.set_events(tool, 0)
    mon.register_callback(tool, mon.events.PY_START, None)
    try:
        mon.restart_events()
    except Exception:
        pass


def run_job(j):
    """Executed in a worker process. Returns a JSON-able dict."""
    t0 = time.time()
    out = dict(name=j["name"], prop=j["prop"], params=j["params"], expect=j["expect"], kind=j["kind"],
               module=j["module"], fn=j["fn"])
    try:
        if j["kind"] == "crosshair":
            from . import chrun
            out.update(chrun.run(j))
            out["wall"] = time.time() - t0
            return out
        from . import core
        mod = importlib.import_module(j["module"])
        fn = getattr(mod, j["fn"])
        funcs = set()
        tool = _monitor_start(funcs)
        try:
            ex = core.Explorer(fn, j["params"], tier=j.get("tier", "quick"), seed=j.get("seed", 0),
                               budget_s=j["budget_s"], max_paths=j["max_paths"],
                               branch_timeout_ms=j["branch_timeout_ms"],
                               oblige_timeout_ms=j["oblige_timeout_ms"],
                               shard=tuple(j["shard"]) if j.get("shard") else None,
                               stop_after_cex=j.get("stop_after_cex")).run()
        finally:
            _monitor_stop(tool)
        counts = dict(discharged=0, cex=0, unknown=0, reach=0, unreach=0)
        pstat = {}
        cexs, samples, aborts, unknowns = [], [], {}, []
        nobl = 0
        validated = mismatches = 0
        mismatch_samples = []
        for p in ex.paths:
            pstat[p.status] = pstat.get(p.status, 0) + 1
            if p.status == "abort":
                aborts[p.abort_reason] = aborts.get(p.abort_reason, 0) + 1
            for o in p.obligations:
                counts[o.status] = counts.get(o.status, 0) + 1
                if o.status in ("discharged", "cex", "unknown"):
                    nobl += 1
                if o.status == "cex":
                    cexs.append(dict(label=o.label, cls=o.cls, model=o.model, choices=list(p.choices),
                                     detail=o.detail, notes=p.notes[:12]))
                elif o.status == "unknown":
                    unknowns.append(dict(label=o.label, cls=o.cls, t=round(o.time, 2)))
            if len(samples) < 4 and p.status == "ok":
                samples.append(dict(choices=list(p.choices), decisions=len(p.decisions), pc_size=p.npc,
                                    notes=p.notes[:8],
                                    obligations=[f"{o.label}:{o.status}" for o in p.obligations][:12]))
            # cross-validation: the same harness on concrete numbers from a model of the PC, no stubs
            if j["validate"] and p.status == "ok" and getattr(p, "pc_model", None) is not None \
                    and not any(o.status == "cex" for o in p.obligations) and validated + mismatches < j.get("max_validate", 40):
                try:
                    cctx, st, err = core.run_concrete(fn, j["params"], p.pc_model, p.choices,
                                                      tier=j.get("tier", "quick"))
                    if st == "ok" and not cctx.failed:
                        validated += 1
                    elif st == "ok":
                        mismatches += 1
                        if len(mismatch_samples) < 3:
                            mismatch_samples.append(dict(model=p.pc_model, choices=list(p.choices),
                                                         failed=[f[0] for f in cctx.failed]))
                except Exception as exc:  # concrete run crashed: the model and the code disagree
                    mismatches += 1
                    if len(mismatch_samples) < 3:
                        mismatch_samples.append(dict(model=p.pc_model, choices=list(p.choices),
                                                     error=f"{type(exc).__name__}: {exc}"))
        out.update(paths=len(ex.paths), path_status=pstat, obligations=nobl, counts=counts,
                   cex=cexs[:200], ncex=len(cexs), samples=samples, aborts=aborts,
                   unknowns=unknowns[:20], not_explored=ex.not_explored, stats=ex.stats,
                   functions=sorted(funcs), validated=validated, mismatches=mismatches,
                   mismatch_samples=mismatch_samples, wall=time.time() - t0)
    except BaseException as exc:  # framework crash in this job
        out.update(crash=f"{type(exc).__name__}: {exc}", tb=traceback.format_exc()[-3000:],
                   wall=time.time() - t0)
    return out


# ---------------------------------------------------------------------------------------------
# driver side


def load_known():
    try:
        with open(KNOWN) as f:
            return json.load(f)
    except FileNotFoundError:
        return {"findings": [], "fixed": []}


def match_known(known, prop, jobname, label, cls):
    for k in known.get("findings", []):
        if k.get("property") != prop:
            continue
        if not fnmatch.fnmatchcase(jobname, k.get("harness", "*")):
            continue
        if not fnmatch.fnmatchcase(str(label), k.get("label", "*")):
            continue
        if not fnmatch.fnmatchcase(str(cls), k.get("cls", "*")):
            continue
        return k
    return None


def write_replay(prop, j, cex, idx):
    os.makedirs(REPLAYS, exist_ok=True)
    safe = "".join(c if c.isalnum() or c in "-_." else "_" for c in f"{prop}_{j['name']}_{cex['label']}_{idx}")
    path = os.path.join(REPLAYS, safe[:150] + ".json")
    with open(path, "w") as f:
        json.dump(dict(property=prop, job=j["name"], module=j["module"], fn=j["fn"], params=j["params"],
                       choices=cex["choices"], model=cex["model"], label=cex["label"], cls=cex["cls"],
                       tier=j.get("tier", "quick"),
                       how="python -m symx.cli --replay <this file>  (runs the harness on these concrete "
                           "values against the unpatched code, no stubs; exit 1 = violation reproduced)"),
                  f, indent=1, default=str)
    return path


def confirm(path, timeout=300):
    """Replay in a fresh interpreter. Returns 'reproduced' | 'not_reproduced' | 'error'."""
    try:
        r = subprocess.run([sys.executable, "-m", "symx.cli", "--replay", path, "--quiet"],
                           cwd=VERIF, capture_output=True, text=True, timeout=timeout)
    except subprocess.TimeoutExpired:
        return "error", "timeout"
    if r.returncode == 1:
        return "reproduced", r.stdout[-2000:]
    if r.returncode == 0:
        return "not_reproduced", r.stdout[-2000:]
    return "error", (r.stdout + r.stderr)[-2000:]


MAX_KNOWN_REPLAYS = 8   # replays per recorded finding and run
MAX_CONFIRMED = 40      # replays are sequential fresh interpreters: stop confirming after this many violations


def run_property(prop, jobs, tier, seed, meta, workers=None, level="model_checking"):
    t0 = time.time()
    skipped = []
    workers = workers or min(16, os.cpu_count() or 4)
    for j in jobs:
        j["tier"] = tier
        j["seed"] = seed
    results = []
    if workers == 1 or len(jobs) == 1:
        results = [run_job(j) for j in jobs]
    else:
        ctx = mp.get_context("spawn")
        with cf.ProcessPoolExecutor(max_workers=min(workers, len(jobs)), mp_context=ctx) as pool:
            futs = {pool.submit(run_job, j): j for j in jobs}
            for fut in cf.as_completed(futs):
                j = futs[fut]
                try:
                    results.append(fut.result())
                except Exception as exc:
                    results.append(dict(name=j["name"], prop=prop, params=j["params"], expect=j["expect"],
                                        crash=f"pool: {type(exc).__name__}: {exc}", wall=0.0,
                                        kind=j["kind"], module=j["module"], fn=j["fn"]))
    results.sort(key=lambda r: r["name"])
    byname = {j["name"]: j for j in jobs}
    known = load_known()

    violations, known_hits, unreproduced, twins_ok, twins_bad = [], {}, [], [], []
    crashes = [r for r in results if "crash" in r]
    tot = dict(paths=0, obligations=0, discharged=0, unknown=0, cex=0, aborted=0, transitions=0,
               validated=0, mismatches=0, not_explored=0, queries=0, solver_time=0.0, max_query=0.0,
               unreach=0)
    functions = set()
    samples = []
    confirm_cache = {}
    for r in results:
        if "crash" in r:
            continue
        j = byname[r["name"]]
        functions.update(r.get("functions", []))
        is_twin = r["expect"] == "cex"
        if r["kind"] == "crosshair":
            st = r.get("ch", {})
        if not is_twin:
            tot["paths"] += r.get("paths", 0)
            tot["obligations"] += r.get("obligations", 0)
            tot["discharged"] += r.get("counts", {}).get("discharged", 0)
            tot["unknown"] += r.get("counts", {}).get("unknown", 0)
            tot["unreach"] += r.get("counts", {}).get("unreach", 0)
            tot["aborted"] += r.get("path_status", {}).get("abort", 0)
            tot["not_explored"] += r.get("not_explored", 0)
            tot["validated"] += r.get("validated", 0)
            tot["mismatches"] += r.get("mismatches", 0)
        s = r.get("stats", {})
        tot["transitions"] += s.get("decided_branches", 0) + r.get("paths", 0)
        tot["queries"] += s.get("branch_queries", 0) + s.get("oblige_queries", 0)
        tot["solver_time"] += s.get("solver_time", 0.0)
        tot["max_query"] = max(tot["max_query"], s.get("max_query", 0.0))
        for smp in r.get("samples", [])[:2]:
            if len(samples) < 12:
                samples.append(dict(job=r["name"], **smp))
        # counterexamples: one confirmation per (job, label, cls)
        seen = {}
        for i, c in enumerate(r.get("cex", [])):
            key = (c["label"], str(c["cls"]))
            seen.setdefault(key, []).append((i, c))
        for key, lst in seen.items():
            status, rep_path, log = "not_reproduced", None, ""
            kpre = match_known(known, prop, r["name"], key[0], key[1]) if not is_twin else None
            if kpre is not None and len(known_hits.get(kpre.get("what", "?"), [])) >= MAX_KNOWN_REPLAYS:
                # this recorded finding has been reproduced several times in this run already: further fingerprints that match
                # its pattern are listed under it without another replay
                known_hits[kpre.get("what", "?")].append(dict(job=r["name"], label=key[0], cls=key[1], n=len(lst), status="matched, not replayed",
                                                              replay=None))
                tot["cex"] += len(lst)
                continue
            if len(violations) >= MAX_CONFIRMED and not is_twin:
                # enough replay-confirmed violations to report; the remaining candidates are listed, not replayed
                skipped.append(dict(job=r["name"], label=key[0], cls=key[1], n=len(lst)))
                tot["cex"] += len(lst)
                continue
            for i, c in lst[:3]:     # try up to three models of the same fingerprint
                rep_path = write_replay(prop, j, c, i)
                status, log = confirm(rep_path)
                if status == "reproduced":
                    break
            if status == "reproduced":
                m = re.search(r"concrete-failure label=(.*?) \|\|cls=(.*?)\|\|", log)
                if m:
                    # reproduced under another obligation of the same harness: report and match known findings under that one
                    key = (m.group(1), m.group(2))
            rec = dict(job=r["name"], label=key[0], cls=key[1], n=len(lst), status=status, replay=rep_path)
            if is_twin:
                (twins_ok if status == "reproduced" else twins_bad).append(rec)
                continue
            tot["cex"] += len(lst)
            if status == "reproduced":
                k = match_known(known, prop, r["name"], key[0], key[1])
                if k is not None:
                    known_hits.setdefault(k.get("what", "?"), []).append(rec)
                else:
                    violations.append(rec)
            else:
                rec["log"] = log[-400:]
                unreproduced.append(rec)
        if is_twin and not r.get("cex"):
            twins_bad.append(dict(job=r["name"], status="no counterexample from the wrong-oracle twin"))

    wall = time.time() - t0
    for what, recs in known_hits.items():
        print(f"KNOWN-FINDING: property={prop} {what} [{len(recs)} fingerprint(s), e.g. job={recs[0]['job']} "
              f"label={recs[0]['label']} replay={recs[0]['replay']}]")
    for v in violations:
        print(f"VIOLATION property={prop} replay={v['replay']}")
        print(f"  job={v['job']} obligation={v['label']} class={v['cls']} ({v['n']} path(s))")
    for c in crashes:
        print(f"HARNESS-ERROR property={prop} job={c['name']}: {c['crash']}", file=sys.stderr)
        if c.get("tb"):
            print(c["tb"], file=sys.stderr)

    # guard against silent loss of coverage: jobs whose obligation count fell well below the committed baseline
    # (e.g. every path now ends in a reader error before the oracle is reached) are reported as inconclusive
    drops = []
    try:
        with open(os.path.join(VERIF, "coverage_baseline.json")) as f:
            base = json.load(f).get(prop, {}).get(tier, {})
    except (OSError, ValueError):
        base = {}
    for r in results:
        b = base.get(r["name"])
        n = r.get("obligations") or 0
        if b and b >= 2 and n < 0.6 * b and not r.get("crash"):
            drops.append(dict(job=r["name"], obligations=n, baseline=b))
            print(f"COVERAGE-NOTE property={prop} job={r['name']} reached {n} obligations, baseline {b}: "
                  f"inconclusive for the paths that no longer reach the oracle")

    # paths whose path condition turned out unsatisfiable at the end discharge everything vacuously: they count for nothing
    vac = [(r["name"], (r.get("counts") or {}).get("unreach", 0), r.get("paths", 0)) for r in results
           if (r.get("counts") or {}).get("unreach", 0)]
    for name, nv, npaths in vac:
        print(f"COVERAGE-NOTE property={prop} job={name} {nv} of {npaths} path(s) ended with an unsatisfiable path condition "
              f"(vacuous: nothing is claimed for them)")

    undis = tot["obligations"] - tot["discharged"]
    coverage = dict(
        states=max(tot["paths"], 0), transitions=tot["transitions"],
        traces_validated_against_impl=tot["validated"],
        samples=samples or [dict(note="no completed path")],
        obligations=tot["obligations"], discharged=tot["discharged"],
        undischarged_unknown=tot["unknown"], counterexamples=tot["cex"],
        counterexamples_unreproduced=len(unreproduced), unreproduced=unreproduced[:10],
        aborted_paths=tot["aborted"], paths_not_explored=tot["not_explored"],
        vacuous_paths=tot["unreach"], engine_mismatches=tot["mismatches"],
        known_findings=[dict(what=w, fingerprints=len(r)) for w, r in known_hits.items()],
        violations=[dict(job=v["job"], label=v["label"], cls=v["cls"], replay=v["replay"]) for v in violations],
        sensitivity_twins=dict(fired=len(twins_ok), silent=twins_bad),
        coverage_drops=drops, counterexamples_not_replayed=skipped[:50],
        functions_encoded=sorted(functions), bounds=meta.get("bounds", {}).get(tier, meta.get("bounds")),
        outside=meta.get("outside", []),
        solver=dict(z3=_z3_version(), queries=tot["queries"], solver_time_s=round(tot["solver_time"], 2),
                    max_query_s=round(tot["max_query"], 2)),
        jobs=[dict(name=r["name"], paths=r.get("paths"), status=r.get("path_status"),
                   obligations=r.get("obligations"), counts=r.get("counts"), aborts=r.get("aborts"),
                   wall=round(r.get("wall", 0), 1), expect=r["expect"], crash=r.get("crash"),
                   not_explored=r.get("not_explored"), ch=r.get("ch"),
                   mismatch_samples=r.get("mismatch_samples") or None,
                   unknowns=r.get("unknowns") or None)
              for r in results],
        exhaustive=False,
        explanation=meta.get("explanation", ""),
    )
    if coverage["states"] < 1:
        coverage["states"] = 0
    ev = dict(property_id=prop, tier=tier, seed=seed, level=level, coverage=coverage,
              assumptions=meta.get("assumptions", []), wall_s=round(wall, 2), violations=len(violations))
    os.makedirs(EVIDENCE, exist_ok=True)
    with open(os.path.join(EVIDENCE, f"{prop}.json"), "w") as f:
        json.dump(ev, f, indent=1, default=str)
    print(f"{prop} {tier}: jobs={len(results)} paths={tot['paths']} obligations={tot['obligations']} "
          f"discharged={tot['discharged']} unknown={tot['unknown']} cex={tot['cex']} "
          f"(known={sum(len(r) for r in known_hits.values())}, violations={len(violations)}, "
          f"unreproduced={len(unreproduced)}) aborted={tot['aborted']} not_explored={tot['not_explored']} "
          f"validated={tot['validated']} mismatches={tot['mismatches']} twins={len(twins_ok)}/"
          f"{len(twins_ok) + len(twins_bad)} wall={wall:.1f}s")
    if skipped:
        print(f"NOTE {len(skipped)} further counterexample fingerprint(s) were not replayed after {MAX_CONFIRMED} confirmed violations")
    if crashes:
        return 3
    return 1 if violations else 0


def _z3_version():
    try:
        import z3
        return z3.get_version_string()
    except Exception:
        return "?"
