"""SymLabel: a basis-function label with symbolic identity and symbolic sign prefix.

Implements exactly the string operations that convention code applies to labels
(``startswith("-")``, ``lstrip("-")``, ``==``, hashing for ``set``/``dict``/``list.index``);
equality forks on the identity terms.
"""

from __future__ import annotations

import z3

from .core import PathAbort, SymBool, current


class SymLabel:
    __slots__ = ("ident", "neg", "name")

    def __init__(self, ident, neg, name="?"):
        self.ident = ident      # z3 Int term
        self.neg = neg          # z3 Bool term (or python bool)
        self.name = name

    def startswith(self, prefix):
        if prefix != "-":
            raise PathAbort(f"SymLabel.startswith({prefix!r})")
        if isinstance(self.neg, bool):
            return self.neg
        return SymBool(self.neg)

    def lstrip(self, chars=None):
        if chars != "-":
            raise PathAbort(f"SymLabel.lstrip({chars!r})")
        return SymLabel(self.ident, False, self.name + "'")

    def _same_neg(self, other):
        a = z3.BoolVal(self.neg) if isinstance(self.neg, bool) else self.neg
        b = z3.BoolVal(other.neg) if isinstance(other.neg, bool) else other.neg
        return a == b

    def __eq__(self, other):
        if not isinstance(other, SymLabel):
            return False
        return SymBool(z3.And(self.ident == other.ident, self._same_neg(other)))

    def __ne__(self, other):
        if not isinstance(other, SymLabel):
            return True
        return SymBool(z3.Not(z3.And(self.ident == other.ident, self._same_neg(other))))

    def _less(self, other):
        # a total order: sign-prefixed labels first ('-' sorts before letters), then by identity
        a = z3.BoolVal(self.neg) if isinstance(self.neg, bool) else self.neg
        b = z3.BoolVal(other.neg) if isinstance(other.neg, bool) else other.neg
        return z3.Or(z3.And(a, z3.Not(b)), z3.And(a == b, self.ident < other.ident))

    def __lt__(self, other):
        if not isinstance(other, SymLabel):
            return NotImplemented
        return SymBool(self._less(other))

    def __gt__(self, other):
        if not isinstance(other, SymLabel):
            return NotImplemented
        return SymBool(other._less(self))

    def __le__(self, other):
        if not isinstance(other, SymLabel):
            return NotImplemented
        return SymBool(z3.Not(other._less(self)))

    def __ge__(self, other):
        if not isinstance(other, SymLabel):
            return NotImplemented
        return SymBool(z3.Not(self._less(other)))

    def __hash__(self):
        return 0     # all labels collide: set/dict fall back to __eq__, which forks

    def __repr__(self):
        return f"<label {self.name}>"

    def __format__(self, spec):
        return repr(self)
