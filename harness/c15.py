"""C15 - after one save/reload cycle, further cycles change nothing."""

from __future__ import annotations

from harness import c02

META = dict(
    bounds=dict(quick="same object menus as C02 (all 13 read/write formats, sizes <= 1000 atoms), cycles 1, 2 and 3: the object of "
                      "generation 3 equals that of generation 2 attribute by attribute as terms (dtype, None-ness, keys) "
                      "and the texts of generations 2 and 3 are identical token for token",
                thorough="as C02 thorough"),
    outside=["digit-level drift of float formatting: numbers are exact terms, so 'bit-identical' is decided up to the "
             "idealisation that printing a value that was parsed from the same format reproduces its digits",
             "QCSchema provenance (documented exception)", "reading the cached default core charges is not a change (C11)",
             "QCSchema documents: five corpus fixtures with tokenised numbers, each with unknown keys injected at the "
             "top level / molecule / keywords / protocols"],
    assumptions=c02.META["assumptions"],
    explanation="symbolic execution of three dump/load generations through the real API",
)


def _drop_provenance(o):
    if isinstance(o, dict):
        return {k: _drop_provenance(v) for k, v in o.items() if k != "provenance"}
    if isinstance(o, list):
        return [_drop_provenance(v) for v in o]
    return o


def h_json_cycles(ctx, fn="LiCl_STO4G_Gaussian_input.json", inject="none"):
    """QCSchema: cycles 2 and 3 give the same object and the same file (provenance exempt)."""
    import copy
    import json
    import os
    import warnings
    import iodata.api as api
    from iodata.utils import DumpError, LoadError, PrepareDumpError
    from harness import rt
    from symx import corpus, symjson
    from symx.stubs import stubbed
    mods = rt._fmt_modules("json_qcschema")
    doc = json.load(open(os.path.join(os.path.dirname(api.__file__), "test", "data", fn)))
    # legitimate documents may carry keys this library does not know (they must survive or be dropped ONCE)
    if inject == "protocols" and isinstance(doc.get("protocols", {}), dict):
        doc.setdefault("protocols", {}).update({"error_correction": {"default_policy": True}, "native_files": "all"})
    elif inject == "toplevel":
        doc["my_unknown_key"] = {"a": [1, 2, 3]}
    elif inject == "molecule" and isinstance(doc.get("molecule"), dict):
        doc["molecule"]["my_unknown_key"] = "abc"
        doc["molecule"].setdefault("extras", {})["note"] = {"nested": [1, {"x": 2}]}
    elif inject == "keywords":
        doc.setdefault("keywords", {})["my_option"] = {"nested": True}
        doc.setdefault("extras", {})["note"] = [1, 2]
    text = json.dumps(doc, indent=4)
    with stubbed(*mods):
        t2, _table = corpus.tokenise(text, min_decimals=3, max_tokens=400)
        p0 = ctx.tmp_path("gen0.json")
        ctx.write_text(p0, t2)
        objs, texts = [], []
        try:
            with warnings.catch_warnings(record=True):
                warnings.simplefilter("always")
                cur = api.load_one(p0, fmt="json_qcschema")
                for g in (1, 2, 3):
                    pg = ctx.tmp_path(f"gen{g}.json")
                    api.dump_one(cur, pg, fmt="json_qcschema")
                    texts.append(ctx.read_text(pg))
                    cur = api.load_one(pg, fmt="json_qcschema")
                    objs.append(cur)
        except (LoadError, DumpError, PrepareDumpError) as e:
            # a document that cannot be cycled is C02's subject; nothing to compare here
            ctx.note(f"cycle failed: {e} / {e.__cause__!r}")
            ctx.oblige("document-can-be-cycled", inject != "none", cls=f"{fn},{inject}", detail=f"{e} / {e.__cause__!r}")
            return
        cls = f"json,{fn},{inject}"

        def strip(o):
            d = copy.copy(o)
            return d
        s2, s3 = rt.snapshot(ctx, objs[1]), rt.snapshot(ctx, objs[2])
        for where, f in rt._value_equal(ctx, _strip_snap(s2), _strip_snap(s3), "obj"):
            ctx.oblige("cycle3-object-equals-cycle2-object", f, cls=f"{cls}:{where[:60]}")
        d2 = _drop_provenance(symjson.loads(texts[1]) if ctx.mode == "sym" else json.loads(texts[1]))
        d3 = _drop_provenance(symjson.loads(texts[2]) if ctx.mode == "sym" else json.loads(texts[2]))
        for where, f in rt._value_equal(ctx, rt._snap(d2), rt._snap(d3), "file"):
            ctx.oblige("cycle3-file-equals-cycle2-file", f, cls=f"{cls}:{where[:60]}")


def _strip_snap(s):
    """Remove provenance entries from a snapshot tree."""
    kind = s[0]
    if kind == "dict":
        return ("dict", s[1], {k: _strip_snap(v) for k, v in s[2].items() if k != "provenance"})
    if kind == "obj":
        return ("obj", s[1], {k: _strip_snap(v) for k, v in s[2].items()})
    if kind == "seq":
        return ("seq", s[1], s[2], [_strip_snap(v) for v in s[3]])
    return s


JSON_FIXTURES = ["LiCl_STO4G_Gaussian_input.json", "H2O_CCSDprTpr_STO3G_output.json", "CuSCN_molecule_extra.json",
                 "LiCl_STO4G_Gaussian_input_nested_extra.json", "water_full.json"]


def jobs(tier):
    out = [j for j in c02.jobs(tier, prop="C15") if "twin" not in j["name"]]
    if tier == "quick":
        # three generations of a 12000-atom file take minutes; the field-width boundaries beyond 1000 atoms are C02's subject
        out = [j for j in out if j["params"].get("natom", 0) <= 1000]
    from symx.runner import job
    for fn in JSON_FIXTURES:
        for inject in ("none", "protocols", "toplevel", "molecule", "keywords"):
            out.append(job("C15", f"json-cycles[{fn},{inject}]", "harness.c15", "h_json_cycles", dict(fn=fn, inject=inject),
                           max_validate=1))
    return out
