"""C15 - after one save/reload cycle, further cycles change nothing."""

from __future__ import annotations

from harness import c02

META = dict(
    bounds=dict(quick="same object menus as C02 (7 geometry/grid/integral formats), cycles 1, 2 and 3: the object of "
                      "generation 3 equals that of generation 2 attribute by attribute as terms (dtype, None-ness, keys) "
                      "and the texts of generations 2 and 3 are identical token for token",
                thorough="as C02 thorough"),
    outside=["digit-level drift of float formatting: numbers are exact terms, so 'bit-identical' is decided up to the "
             "idealisation that printing a value that was parsed from the same format reproduces its digits",
             "wavefunction formats (see C01 harnesses)", "QCSchema provenance (documented exception)"],
    assumptions=c02.META["assumptions"],
    explanation="symbolic execution of three dump/load generations through the real API",
)


def jobs(tier):
    out = [j for j in c02.jobs(tier, prop="C15") if "twin" not in j["name"]]
    return out
