"""C17 - format selection is deterministic and declared capabilities are truthful."""

from __future__ import annotations

import fnmatch
import os


from symx import core
from symx.core import PathAbort
from symx.runner import job
from symx.stubs import stubbed
from symx.symstr import NameState, OsProxy, SymStr, glob_atom, sym_fnmatch, validate_translation

META = dict(
    bounds=dict(
        quick="file name: ONE unbounded-length symbolic string (any directory part, any base name) per operation in "
              "{load_one, load_many, dump_one, dump_many}; explicit format in {None, each of the 25 module names, "
              "an unknown name}; input-writer selection for {gaussian, orca, unknown}; declared attribute names of "
              "all modules (ground facts); glob->regex translation validated against fnmatch on concrete names; one "
              "solver-generated base name (<= 24 printable characters) per region around every declared pattern - a match that "
              "no earlier module claims, and each near miss with one literal character replaced - run through the real "
              "selection whatever matching routine it uses; "
              "guaranteed attributes: every object loaded by 23 layout-file harnesses (independent writers of C03; all explored paths) "
              "has each attribute its module declares as guaranteed",
        thorough="same (the name space is already unbounded)"),
    outside=["os.path.basename is modelled by its documented contract (suffix after the last '/'); z3 does not "
             "prove the rfind-based implementation equal to it (unknown after 60 s)",
             "'required' enforcement before the output file is opened is checked in C08 (required-attribute subsets, event traces)"],
    assumptions=["fnmatch replaced by a glob->SMT string atom translation (posix, case-sensitive), validated at start-up",
                 "regex constraints kept as SMT-LIB string atoms over (d, b, f=d++b); decided by cvc5 1.0 (z3 fallback), QF_SLIA"],
    explanation="symbolic execution of api._select_format_module/_select_input_module on a symbolic file name",
)

OPS = ("load_one", "load_many", "dump_one", "dump_many")


def _qual_regex(api, attr):
    """Per module: SMT atom meaning 'a pattern matches the base name' (if the module has attr)."""
    out = {}
    for name, mod in api.FORMAT_MODULES.items():
        if hasattr(mod, attr) and mod.PATTERNS:
            rs = [glob_atom(p, "b") for p in mod.PATTERNS]
            out[name] = rs[0] if len(rs) == 1 else "(or " + " ".join(rs) + ")"
    return out


def _qualifies_concrete(mod, attr, fname):
    base = fname.rsplit("/", 1)[-1]
    return hasattr(mod, attr) and any(fnmatch.fnmatchcase(base, p) for p in mod.PATTERNS)


def _name_partition(api, gi, ng):
    """Disjoint, exhaustive classes of names used to split the exploration over workers."""
    pats = sorted({p for m in api.FORMAT_MODULES.values() for p in m.PATTERNS})
    groups = [pats[g::ng] for g in range(ng)]

    def anyof(ps):
        return "(or " + " ".join(glob_atom(p, "b") for p in ps) + " false)"
    out = []
    if gi < ng:
        out.append(anyof(groups[gi]))
    for g in range(min(gi, ng)):
        out.append(f"(not {anyof(groups[g])})")
    return out


def h_select_name(ctx, attr="load_one", twin=False, group=None):
    """fmt=None: the choice is a function of the base name; it qualifies; errors only when nothing does."""
    import iodata.api as api
    from iodata.utils import FileFormatError
    if ctx.mode == "conc":
        fname = ctx.model.get("fname", "x.xyz")
        try:
            mod = api._select_format_module(fname, attr, None)
        except FileFormatError:
            mod = None
        anyq = [n for n, m in api.FORMAT_MODULES.items() if _qualifies_concrete(m, attr, fname)]
        if mod is not None:
            ctx.oblige("chosen-format-matches-basename-and-supports-operation",
                       _qualifies_concrete(mod, attr, fname) and not twin, cls=attr)
        else:
            ctx.oblige("error-only-when-no-format-qualifies", not anyq, cls=attr)
        base = fname.rsplit("/", 1)[-1]
        try:
            mod2 = api._select_format_module(base, attr, None)
        except FileFormatError:
            mod2 = None
        ctx.oblige("same-choice-for-bare-basename", mod2 is mod, cls=attr)
        for other in OPS:
            if other != attr:
                try:
                    api._select_format_module(fname, other, None)
                except FileFormatError:
                    pass
        try:
            mod3 = api._select_format_module(fname, attr, None)
        except FileFormatError:
            mod3 = None
        ctx.oblige("same-choice-after-other-calls", mod3 is mod, cls=attr)
        if mod is None:
            raised, touched = _public_call(api, attr, fname, None)
            ctx.oblige("selection-error-is-FileFormatError-before-any-file-access",
                       raised == "FileFormatError" and not touched, cls=f"{attr},no-match")
        return
    st = NameState(ctx)
    ctx.scratch["namestate"] = st
    if group is not None:
        st.asserts.extend(_name_partition(api, group[0], group[1]))
    name = SymStr(st, "full")
    quals = _qual_regex(api, attr)
    with stubbed(files=(), extra=[(api, "os", OsProxy()), (api, "fnmatch", sym_fnmatch)]):
        try:
            mod = api._select_format_module(name, attr, None)
        except FileFormatError:
            mod = None
        # (1) what the statement demands of the outcome
        if mod is not None:
            modname = mod.__name__.rsplit(".", 1)[-1]
            q = quals.get(modname) if not twin else quals.get("xyz" if modname != "xyz" else "pdb")
            if q is None:
                res, wit = False, st.witness()
            else:
                res, wit = st.subset_of(q)
            ctx.record("chosen-format-matches-basename-and-supports-operation", f"{attr}", res, {"fname": wit},
                       detail=f"chosen={modname}")
        else:
            allq = "(or " + " ".join(quals.values()) + ")" if len(quals) > 1 else list(quals.values())[0]
            res, wit = st.disjoint_from(allq)
            ctx.record("error-only-when-no-format-qualifies", f"{attr}", res, {"fname": wit})
        # (2) the bare base name gives the same answer (no dependence on the directory part);
        # all atoms are already decided on this path, so this costs no solver query when the code
        # only looks at the base name
        try:
            mod2 = api._select_format_module(SymStr(st, "base"), attr, None)
        except FileFormatError:
            mod2 = None
        ctx.record("same-choice-for-bare-basename", f"{attr}", mod2 is mod,
                   {"fname": None if mod2 is mod else st.witness()})
        # (2b) the choice does not depend on earlier calls: ask for the other operations, then again
        for other in OPS:
            if other != attr:
                try:
                    api._select_format_module(name, other, None)
                except FileFormatError:
                    pass
        try:
            mod3 = api._select_format_module(name, attr, None)
        except FileFormatError:
            mod3 = None
        ctx.record("same-choice-after-other-calls", f"{attr}", mod3 is mod, {"fname": None if mod3 is mod else st.witness()},
                   detail=f"{mod.__name__ if mod else None} then {mod3.__name__ if mod3 else None}")
        # (3) on an error path the public function raises FileFormatError before touching any file
        if mod is None:
            raised, touched = _public_call(api, attr, name, None)
            ctx.record("selection-error-is-FileFormatError-before-any-file-access", f"{attr},no-match",
                       raised == "FileFormatError" and not touched, {"fname": st.witness()}, detail=f"raised={raised}")
    ctx.note(f"chosen: {mod.__name__ if mod else 'FileFormatError'}; string queries {st.queries}")
    if st.unknown:
        ctx.note(f"{st.unknown} string queries returned unknown")


class _Touched(BaseException):
    pass


def _public_call(api, attr, name, fmt):
    """Call the public API function with every ``open`` replaced by a spy. Returns (raised, touched)."""
    import iodata.utils as U
    from iodata.utils import FileFormatError
    touched = []

    def spy_open(path, *a, **k):
        touched.append(path)
        raise _Touched()

    saved = (vars(api).get("open"), vars(U).get("open"))
    api.open = spy_open
    U.open = spy_open
    raised = None
    try:
        try:
            if attr == "load_one":
                api.load_one(name, fmt=fmt)
            elif attr == "load_many":
                for _ in api.load_many(name, fmt=fmt):
                    pass
            elif attr == "dump_one":
                api.dump_one(None, name, fmt=fmt)
            else:
                api.dump_many(iter([None]), name, fmt=fmt)
        except FileFormatError:
            raised = "FileFormatError"
        except _Touched:
            raised = "touched"
        except Exception as e:  # any other error type
            raised = type(e).__name__
    finally:
        for m, old in zip((api, U), saved):
            if old is None:
                if "open" in vars(m):
                    delattr(m, "open")
            else:
                m.open = old
    return raised, touched


def h_select_explicit(ctx, attr="load_one"):
    """An explicit format always wins; unknown / unsupported formats raise FileFormatError; no fork on the name."""
    import iodata.api as api
    from iodata.utils import FileFormatError
    fmts = sorted(api.FORMAT_MODULES) + ["nonexistent-format", ""]
    fmt = ctx.choice(fmts, label="fmt")
    if ctx.mode == "conc":
        name = ctx.model.get("fname", "some/dir.xyz/FCIDUMP.molden")
    else:
        st = NameState(ctx)
        name = SymStr(st, "full")
    with stubbed(files=(), extra=[(api, "os", OsProxy()), (api, "fnmatch", sym_fnmatch)]):
        try:
            mod = api._select_format_module(name, attr, fmt)
            err = None
        except FileFormatError as e:
            mod, err = None, e
    if fmt in api.FORMAT_MODULES and hasattr(api.FORMAT_MODULES[fmt], attr):
        ctx.oblige("explicit-format-wins", mod is api.FORMAT_MODULES[fmt], cls=f"{attr},{fmt}")
    else:
        ctx.oblige("unknown-or-unsupported-format-raises-FileFormatError", err is not None, cls=f"{attr},{fmt}")
    if ctx.mode == "sym":
        ctx.oblige("explicit-format-never-looks-at-the-name", st.queries == 0, cls=f"{attr},{fmt}")


def h_no_touch_on_error(ctx, attr="load_one"):
    """Unknown / unsupported explicit formats raise FileFormatError before the file system is touched."""
    import iodata.api as api
    case = ctx.choice(["unknown-fmt", "unsupported-op"], label="case")
    if ctx.mode == "conc":
        name = "some/dir.xyz/a.xyz"
    else:
        st = NameState(ctx)
        name = SymStr(st, "full")
    fmt = "nonexistent-format"
    if case == "unsupported-op":
        lacking = [n for n, m in sorted(api.FORMAT_MODULES.items()) if not hasattr(m, attr)]
        if not lacking:
            return
        fmt = ctx.choice(lacking, label="fmt")
    with stubbed(files=(), extra=[(api, "os", OsProxy()), (api, "fnmatch", sym_fnmatch)]):
        raised, touched = _public_call(api, attr, name, fmt)
    ctx.oblige("selection-error-is-FileFormatError-before-any-file-access",
               raised == "FileFormatError" and not touched, cls=f"{attr},{case}", detail=f"raised={raised}")


def h_input_select(ctx):
    import iodata.api as api
    from iodata.utils import FileFormatError
    fmt = ctx.choice(sorted(api.INPUT_MODULES) + ["nonexistent-program", "xyz"], label="fmt")
    try:
        mod = api._select_input_module("x.in", fmt)
        err = None
    except FileFormatError as e:
        mod, err = None, e
    if fmt in api.INPUT_MODULES:
        ctx.oblige("input-module-selected", mod is api.INPUT_MODULES[fmt] and hasattr(mod, "write_input"), cls=fmt)
    else:
        ctx.oblige("unknown-program-raises-FileFormatError", err is not None, cls=fmt)


def h_declared(ctx, module="xyz"):
    """Declared attribute names exist on IOData (ground facts, one obligation per declared name)."""
    import attrs

    import iodata.api as api
    from iodata.iodata import IOData
    fields = {a.name.lstrip("_") for a in attrs.fields(IOData)}
    props = {n for n in dir(IOData) if isinstance(getattr(IOData, n, None), property)}
    valid = fields | props
    mod = api.FORMAT_MODULES[module]
    n = 0
    for fn_name in OPS:
        fn = getattr(mod, fn_name, None)
        if fn is None:
            continue
        for lst_name in ("guaranteed", "ifpresent", "required", "optional"):
            for name in getattr(fn, lst_name, None) or []:
                n += 1
                ctx.oblige("declared-attribute-exists", name in valid, cls=f"{module}.{fn_name}.{lst_name}:{name}")
        ctx.oblige("declares-capability-lists", (hasattr(fn, "guaranteed") and hasattr(fn, "ifpresent"))
                   if fn_name.startswith("load") else (hasattr(fn, "required") and hasattr(fn, "optional")),
                   cls=f"{module}.{fn_name}")
    # registry and help text are built from the same modules
    ctx.oblige("module-has-patterns-list", isinstance(mod.PATTERNS, list), cls=module)


def h_guaranteed(ctx, module="harness.c03", fn="h_gro", params=None, fmt="gromacs"):
    """Every object a reader returns has all attributes its module declares as guaranteed (on every explored path of a
    loading harness whose file comes from an independent layout writer)."""
    import importlib
    import iodata.api as api
    from harness import c16
    mod = api.FORMAT_MODULES[fmt]
    loaded = []
    real_one, real_many = api.load_one, api.load_many

    def rec_one(*a, **k):
        d = real_one(*a, **k)
        loaded.append(("load_one", d))
        return d

    def rec_many(*a, **k):
        for d in real_many(*a, **k):
            loaded.append(("load_many", d))
            yield d
    api.load_one, api.load_many = rec_one, rec_many
    try:
        getattr(importlib.import_module(module), fn)(c16._Quiet(ctx), **(params or {}))
    finally:
        api.load_one, api.load_many = real_one, real_many
    for op, d in loaded:
        names = getattr(getattr(mod, op, None), "guaranteed", None) or []
        for name in names:
            ctx.oblige("guaranteed-attribute-is-set", getattr(d, name, None) is not None, cls=f"{fmt}.{op}:{name}")


def _near_miss_queries(api):
    """(tag, assertions) - one string query per region of interest around every declared pattern: the pattern itself outside
    all patterns of earlier modules, and the pattern with one of its literal characters replaced by any other character."""
    from symx.symstr import glob_regex, smt_lit
    mods = list(api.FORMAT_MODULES.items())
    out = []
    for mi, (name, m) in enumerate(mods):
        earlier = [p for _n, mm in mods[:mi] for p in mm.PATTERNS]
        for p in m.PATTERNS:
            base = ['(= d "")', "(>= (str.len b) 1)", "(<= (str.len b) 24)"]
            out.append((f"{name}:{p}:match", base + [glob_atom(p, "b")] + [f"(not {glob_atom(q, 'b')})" for q in earlier]))
            for i, ch in enumerate(p):
                if ch in "*?[]":
                    continue
                # same shape, position i holds any character but the one the pattern spells out
                parts = []
                for j, cj in enumerate(p):
                    if j == i:
                        parts.append(f"(re.diff re.allchar (str.to_re {smt_lit(cj)}))")
                    elif cj == "*":
                        parts.append("re.all")
                    else:
                        parts.append(f"(str.to_re {smt_lit(cj)})")
                rx = parts[0] if len(parts) == 1 else "(re.++ " + " ".join(parts) + ")"
                printable = '(str.in_re b (re.* (re.range " " "~")))'
                out.append((f"{name}:{p}:miss{i}", base + [f"(str.in_re b {rx})", printable]))
    return out


def h_select_witnesses(ctx, attr="load_one"):
    """Independent of how the implementation matches names (the symbolic job select-by-name needs it to go through fnmatch):
    the string solver produces one name per region around every declared pattern - a match that no earlier module claims, and
    every near miss in which one literal character of the pattern is another one -, the real selection runs on that name
    and is compared with the specification."""
    import iodata.api as api
    from iodata.utils import FileFormatError
    if ctx.mode == "conc":
        return h_select_name(ctx, attr=attr)
    from symx.symstr import solve
    nq = nw = 0
    for tag, asserts in _near_miss_queries(api):
        st, wit = solve(asserts, True, timeout_s=5)
        nq += 1
        if st != "sat" or wit is None:
            if st == "unknown":
                ctx.record("witness-for-region", f"{attr}", None, {}, detail=tag)
            continue
        nw += 1
        try:
            mod = api._select_format_module(wit, attr, None)
        except FileFormatError:
            mod = None
        anyq = [n for n, m in api.FORMAT_MODULES.items() if _qualifies_concrete(m, attr, wit)]
        if mod is not None:
            ok = _qualifies_concrete(mod, attr, wit)
            ctx.record("chosen-format-matches-basename-and-supports-operation", f"{attr}", ok, {"fname": wit},
                       detail=f"{tag}: {wit!r} -> {mod.__name__.rsplit('.', 1)[-1]}")
        else:
            ctx.record("error-only-when-no-format-qualifies", f"{attr}", not anyq, {"fname": wit},
                       detail=f"{tag}: {wit!r} refused although {anyq} qualify")
    ctx.note(f"{nq} string queries, {nw} witnesses")


def h_glob_translation(ctx):
    """Validate the glob->regex model against fnmatch on concrete names (model validation, not the claim)."""
    import iodata.api as api
    pats = sorted({p for m in api.FORMAT_MODULES.values() for p in m.PATTERNS} | {"a?c", "[ab]*.x", "[!a]b"})
    names = ["x.xyz", "x.XYZ", "a.cp2k.out", "FCIDUMP", "FCIDUMP.molden", "xFCIDUMPy", "POSCAR", "POSCAR.1",
             "CHGCAR", "AECCAR0", "LOCPOT", "a.molden.input", "a.molden", ".xyz", "xyz", "a.out", "a.fch", "a.fchk",
             "a.log", "abc", "bb", "ab", "b.x", "cb", "", "a.com", "a.gjf", "noext", "a.crd", "a.dat", "x.cube",
             "x.cub", "weird name.pdb", "x.sdf ", "a.mol2", "x.wfn", "x.wfx", "x.mwfn", "x.mkl", "x.gro", "x.extxyz",
             "x.qchemlog", "x.fcidump"]
    bad, err = validate_translation(pats, names)
    ctx.oblige("glob-regex-model-agrees-with-fnmatch", err is None and not bad, detail=str(err or bad[:5]))


def jobs(tier):
    M = "harness.c17"
    out = []
    for attr in OPS:
        ng = 1 if (attr == "load_one" and tier == "thorough") else 6      # thorough: one job without name partition as well
        for k in range(ng + 1 if ng > 1 else 1):
            out.append(job("C17", f"select-by-name[{attr}]" + (f"#{k}" if ng > 1 else ""), M, "h_select_name",
                           dict(attr=attr, group=(k, ng) if ng > 1 else None), budget_s=600, validate=False,
                           stop_after_cex=3))
        out.append(job("C17", f"select-explicit[{attr}]", M, "h_select_explicit", dict(attr=attr), budget_s=300,
                       max_validate=60))
        out.append(job("C17", f"no-touch-on-error[{attr}]", M, "h_no_touch_on_error", dict(attr=attr), budget_s=900,
                       validate=False))
    for attr in OPS:
        out.append(job("C17", f"select-witnesses[{attr}]", M, "h_select_witnesses", dict(attr=attr), budget_s=600, validate=False))
    out.append(job("C17", "select-by-name[twin]", M, "h_select_name", dict(attr="load_one", twin=True),
                   expect="cex", budget_s=600, validate=False, stop_after_cex=1))
    C3 = "harness.c03"
    for fmt, fn, params in (
            ("gromacs", "h_gro", dict(natom=2, nframes=2, vel=True, triclinic=True, time=True)),
            ("gromacs", "h_gro", dict(natom=2, nframes=1, vel=False, triclinic=False, time=False)),
            ("xyz", "h_xyz", dict(nframes=2, ext=False)), ("extxyz", "h_xyz", dict(nframes=2, ext=True)),
            ("sdf", "h_sdf", dict(natom=3, nbond=2)), ("pdb", "h_pdb", dict(natom=3, big=False)), ("mol2", "h_mol2", dict(natom=3)),
            ("poscar", "h_vasp", dict(kind="poscar", direct=True, selective=False)),
            ("chgcar", "h_vasp", dict(kind="chgcar", direct=True, selective=False)),
            ("locpot", "h_vasp", dict(kind="locpot", direct=False, selective=False)),
            ("cube", "h_cube", dict(shape=[1, 2, 7])), ("charmm", "h_crd", dict(natom=2)), ("fcidump", "h_fcidump", dict(n=2)),
            ("wfn", "h_wfn", dict(order="standard-p", nprim=1)), ("wfx", "h_wfx", dict(order="standard-p", nprim=1, extras=False)),
            ("fchk", "h_fchk", dict(basis="sp", spin="restricted", props=False)), ("fchk", "h_fchk_trajectory", dict(kind="IRC", npoint=2)),
            ("molden", "h_molden_layout", dict(fmt="molden", dkind="c", unit="AU", spin="restricted")),
            ("molekel", "h_molden_layout", dict(fmt="molekel", dkind="p", unit="AU", spin="unrestricted")),
            ("mwfn", "h_mwfn", dict(dtype=2, spin="restricted")), ("gamess", "h_gamess", dict(natom=2)),
            ("gaussianinput", "h_gaussian_input", dict(natom=2, nlink0=1, nroute=1, ntitle=1)),
            ("gaussianlog", "h_gaussian_log", dict(nbasis=6))):
        name = f"guaranteed[{fmt},{fn}]"
        if any(j["name"] == name for j in out):
            name = f"guaranteed[{fmt},{fn},{','.join(f'{k}={v}' for k, v in sorted(params.items()))}]"
        out.append(job("C17", name, M, "h_guaranteed", dict(module=C3, fn=fn, params=params, fmt=fmt), budget_s=300,
                       max_validate=2, max_paths=300))
    out.append(job("C17", "input-select", M, "h_input_select", {}))
    out.append(job("C17", "glob-translation", M, "h_glob_translation", {}, validate=False))
    import iodata.api as api
    for name in sorted(api.FORMAT_MODULES):
        out.append(job("C17", f"declared[{name}]", M, "h_declared", dict(module=name), validate=False))
    return out
