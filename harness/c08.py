"""C08 - dump failures follow the error contract; pre-flight errors spare existing files."""

from __future__ import annotations

import itertools
import warnings

import numpy as np

from harness import wfobj
from symx import core
from symx.core import And, Not, Or
from symx.runner import job
from symx.stubs import stubbed

META = dict(
    bounds=dict(
        quick="all 13 dump_one and 4 dump_many formats; every non-empty subset of the declared required attributes set to "
              "None; every prepare_dump rejection reason (generalized orbitals, occs_aminusb, generalized contractions, "
              "pure functions for WFN/WFX (also as one contraction of a generalized shell), non-aufbau occupations for FCHK incl. symbolic occupations, missing / "
              "unsupported schema_name for QCSchema) x allow_changes; target absent / pre-existing; dump_many with the faulty "
              "frame at index 0, 1, 2 and list / generator iterables, empty sequence; a generator raising one of five "
              "exception types (incl. IOData's own LoadError / FileFormatError / WriteInputError) before frame 0, 1, 2; a fault injected at the k-th write "
              "for every k up to 12 (and the last); unknown and unsupported formats, also after a successful dump_one / load_one "
              "of the same path (9 dump_one-only and 5 load-only formats); an un-openable target",
        thorough="as quick with a fault at the k-th write for every k up to 60 (and the last) and FCHK occupation vectors of three orbitals"),
    outside=["operating-system level faults other than a failing write()/open()", "threads"],
    assumptions=["open() in iodata.api/iodata.utils replaced by an in-memory file system that records open / truncate / "
                 "write / close events", "the input space is discrete here: the solver contributes the FCHK aufbau "
                 "condition on symbolic occupations; everything else is exhaustive exploration of choice forks"],
    explanation="exhaustive exploration of the real api.dump_one/dump_many under nondeterministic environment stubs",
)

DUMP_ONE = ["cube", "fchk", "fcidump", "json_qcschema", "mol2", "molden", "molekel", "pdb", "poscar", "sdf", "wfn", "wfx", "xyz"]
DUMP_MANY = ["mol2", "pdb", "sdf", "xyz"]
FILENAMES = dict(xyz="a.xyz", pdb="a.pdb", mol2="a.mol2", sdf="a.sdf", poscar="POSCAR", cube="a.cube", fcidump="a.fcidump",
                 fchk="a.fchk", molden="a.molden", molekel="a.mkl", wfn="a.wfn", wfx="a.wfx", json_qcschema="a.json")


def rich_object(ctx, fmt, reason=None):
    """An object that satisfies every required list (geometry, cell, cube, integrals, basis, orbitals)."""
    from iodata.iodata import IOData
    from iodata.utils import Cube
    shells = [(0, [0], ["c"], 2), (1, [1], ["c"], 1)]
    mo_kind, occ, norb = "restricted", "closed", 2
    if reason == "generalized-orbitals":
        mo_kind, occ = "generalized", "closed"
    elif reason == "occs_aminusb":
        occ = "aminusb"
    elif reason == "occs_aminusb-zero":
        occ = "aminusb-zero"
    elif reason == "occs_aminusb-singlet":
        occ = "aminusb-singlet"
    elif reason == "generalized-contraction":
        shells = [(0, [0, 0], ["c", "c"], 2), (1, [1], ["c"], 1)]
    elif reason == "ps-ordered-contraction":
        # two contractions ordered p, s: not an SP shell as FCHK stores it (s first), so it needs the conversion like any other
        shells = [(0, [1, 0], ["c", "c"], 2), (1, [0], ["c"], 1)]
    elif reason == "three-contractions":
        shells = [(0, [0, 1, 1], ["c", "c", "c"], 2), (1, [0], ["c"], 1)]
    elif reason == "pure-functions":
        shells = [(0, [0], ["c"], 2), (1, [2], ["p"], 1)]
    elif reason == "pure-in-generalized":
        # a pure d contraction that shares its primitives with an s contraction: pure functions all the same
        shells = [(0, [0, 2], ["c", "p"], 2), (1, [0], ["c"], 1)]
    elif reason == "non-aufbau":
        occ = "fractional"
    kw = wfobj.make_wf(ctx, [(8, None), (1, None)], shells, conv="horton2", mo_kind=mo_kind, norb=norb, occ=occ, sym=False,
                       coords_sym=False, contraction_sym=False)
    kw.update(cellvecs=np.eye(3) * 5.0, title="t", energy=-1.0,
              cube=Cube(origin=np.zeros(3), axes=np.eye(3), data=np.ones((1, 1, 2))),
              one_ints={"core_mo": np.eye(2)}, two_ints={"two_mo": np.ones((2, 2, 2, 2))},
              extra={"schema_name": "qcschema_molecule", "molecule": {}})
    if reason == "missing-schema-name":
        kw["extra"] = {}
    elif reason == "unsupported-schema":
        kw["extra"] = {"schema_name": "qcschema_basis"}
    return kw


def _run_dump(ctx, api, fn, *args, **kw):
    """Call an API function; classify the outcome and the file-system events."""
    from iodata.utils import DumpError, FileFormatError, PrepareDumpError, WriteInputError
    n0 = len(ctx.events)
    with warnings.catch_warnings(record=True) as wl:
        warnings.simplefilter("always")
        try:
            fn(*args, **kw)
            out = "ok"
        except PrepareDumpError:
            out = "PrepareDumpError"
        except DumpError:
            out = "DumpError"
        except FileFormatError:
            out = "FileFormatError"
        except WriteInputError:
            out = "WriteInputError"
        except OSError as e:
            out = "OSError"
        except Exception as e:  # anything else violates the contract
            out = f"other:{type(e).__name__}"
    ev = ctx.events[n0:]
    return out, ev, wl


def _closed(ev):
    opened = [e[1] for e in ev if e[0] == "open" and "w" in e[2]]
    closed = [e[1] for e in ev if e[0] == "close"]
    return all(p in closed for p in opened)


def _mods():
    import importlib
    import iodata.api as api
    mods = [api]
    return mods


def h_required(ctx, fmt="xyz", many=False):
    """Every non-empty subset of the required attributes set to None -> PrepareDumpError, file untouched."""
    import iodata.api as api
    from iodata.iodata import IOData
    mod = api.FORMAT_MODULES[fmt]
    fn = mod.dump_many if many else mod.dump_one
    req = list(fn.required)
    subsets = [s for r in range(1, len(req) + 1) for s in itertools.combinations(req, r)]
    sub = ctx.choice(subsets, label="none-subset")
    exists = ctx.choice([False, True], label="target-exists")
    allow = ctx.choice([False, True], label="allow_changes")
    path = ctx.tmp_path(FILENAMES[fmt])
    with stubbed(api):
        kw = rich_object(ctx, fmt)
        for a in sub:
            kw[a] = None
        if "atnums" in sub:
            kw.pop("atcorenums", None)
        try:
            data = IOData(**kw)
        except TypeError:
            return
        if not all(getattr(data, a) is None for a in sub):
            return      # not realisable: the attribute is derived from others (e.g. default core charges)
        if exists:
            ctx.write_text(path, "OLD CONTENT\n")
        if many:
            pos = ctx.choice([0, 1, 2], label="faulty-frame")
            good = IOData(**rich_object(ctx, fmt))
            frames = [good] * pos + [data] + [good]
            as_gen = ctx.choice([False, True], label="generator")
            it = (f for f in frames) if as_gen else frames
            out, ev, _ = _run_dump(ctx, api, api.dump_many, it, path, allow_changes=allow, fmt=fmt)
            cls = f"{fmt},many,pos={pos}"
            ctx.oblige("missing-required-attribute-raises-PrepareDumpError", out == "PrepareDumpError", cls=cls,
                       detail=f"{out} none={sub}")
            if pos == 0:
                ctx.oblige("first-frame-error-leaves-target-untouched",
                           not ev and ctx.read_text(path) == ("OLD CONTENT\n" if exists else None), cls=cls)
            else:
                ctx.oblige("file-closed-after-later-frame-error", _closed(ev), cls=cls)
            return
        out, ev, _ = _run_dump(ctx, api, api.dump_one, data, path, allow_changes=allow, fmt=fmt)
        cls = f"{fmt},one"
        ctx.oblige("missing-required-attribute-raises-PrepareDumpError", out == "PrepareDumpError", cls=cls,
                   detail=f"{out} none={sub}")
        ctx.oblige("preflight-error-leaves-target-untouched",
                   not ev and ctx.read_text(path) == ("OLD CONTENT\n" if exists else None), cls=cls, detail=str(ev))


REASONS = {
    "fchk": ["generalized-orbitals", "generalized-contraction", "ps-ordered-contraction", "three-contractions", "non-aufbau"],
    "molden": ["generalized-orbitals", "occs_aminusb", "occs_aminusb-zero", "occs_aminusb-singlet", "generalized-contraction", "ps-ordered-contraction", "three-contractions"],
    "molekel": ["generalized-orbitals", "occs_aminusb", "occs_aminusb-zero", "occs_aminusb-singlet", "generalized-contraction", "ps-ordered-contraction", "three-contractions"],
    "wfn": ["generalized-orbitals", "occs_aminusb", "occs_aminusb-zero", "occs_aminusb-singlet", "generalized-contraction", "ps-ordered-contraction", "pure-functions", "pure-in-generalized"],
    "wfx": ["generalized-orbitals", "occs_aminusb", "occs_aminusb-zero", "occs_aminusb-singlet", "generalized-contraction", "ps-ordered-contraction", "pure-functions", "pure-in-generalized"],
    "json_qcschema": ["missing-schema-name", "unsupported-schema"],
}
CONVERTIBLE = {"occs_aminusb", "occs_aminusb-zero", "occs_aminusb-singlet", "generalized-contraction", "ps-ordered-contraction", "three-contractions"}


def h_rejection(ctx, fmt="wfn"):
    """prepare_dump rejection reasons x allow_changes x target existence."""
    import iodata.api as api
    from iodata.iodata import IOData
    reason = ctx.choice(REASONS[fmt], label="reason")
    allow = ctx.choice([False, True], label="allow_changes")
    exists = ctx.choice([False, True], label="target-exists")
    path = ctx.tmp_path(FILENAMES[fmt])
    with stubbed(api):
        data = IOData(**rich_object(ctx, fmt, reason))
        if exists:
            ctx.write_text(path, "OLD CONTENT\n")
        out, ev, wl = _run_dump(ctx, api, api.dump_one, data, path, allow_changes=allow, fmt=fmt)
    cls = f"{fmt},{reason},allow={allow}"
    # FCHK keeps SP shells but no other generalized contraction; [0,0] is not SP -> needs conversion
    if reason in CONVERTIBLE and allow:
        from iodata.utils import PrepareDumpWarning
        ctx.oblige("allowed-conversion-writes-the-file", out == "ok", cls=cls, detail=out)
        ctx.oblige("conversion-is-announced", any(issubclass(w.category, PrepareDumpWarning) for w in wl), cls=cls)
        ctx.oblige("file-closed", _closed(ev), cls=cls)
    else:
        ctx.oblige("incompatible-object-raises-PrepareDumpError", out == "PrepareDumpError", cls=cls, detail=out)
        ctx.oblige("preflight-error-leaves-target-untouched",
                   not ev and ctx.read_text(path) == ("OLD CONTENT\n" if exists else None), cls=cls, detail=str(ev))


def h_fchk_aufbau(ctx, norb=2, twin=False, kind="unrestricted"):
    """FCHK: PrepareDumpError iff the alpha/beta occupations are not 'ones then zeros' (symbolic occupations)."""
    import iodata.api as api
    import iodata.attrutils as A
    import iodata.formats.fchk as fchk
    import iodata.iodata as I
    import iodata.orbitals as O
    import iodata.prepare as P
    from iodata.iodata import IOData
    from iodata.utils import PrepareDumpError
    with stubbed(api, fchk, O, A, I, P):
        kw = rich_object(ctx, "fchk")
        occa = ctx.real_array("oa", (norb,), lo=0, hi=1)
        occb = ctx.real_array("ob", (norb,), lo=0, hi=1)
        mo0 = kw["mo"]
        co = np.hstack([np.asarray(mo0.coeffs, dtype=float)] * norb)[:, :norb]
        if kind == "unrestricted":
            kw["mo"] = O.MolecularOrbitals("unrestricted", norb, norb, np.concatenate([occa, occb]) if ctx.mode == "conc"
                                           else np.array(list(occa) + list(occb), dtype=object),
                                           np.hstack([co, co]), None, None)
        else:
            # restricted orbitals whose alpha/beta occupations are given through occs and occs_aminusb
            tot = occa + occb
            dif = occa - occb
            kw["mo"] = O.MolecularOrbitals("restricted", norb, norb, tot, co, None, None,
                                           dif if kind == "restricted-aminusb" else None)
            if kind == "restricted":
                # without occs_aminusb the documented heuristic defines alpha/beta: use the class's own accessors
                occa, occb = kw["mo"].occsa, kw["mo"].occsb
        data = IOData(**kw)
        try:
            fchk.prepare_dump(data, False, "a.fchk")
            rejected = False
        except PrepareDumpError:
            rejected = True

        def aufbau(v):
            # ones then zeros with the electron count of that spin channel as the number of ones
            alts = []
            for k in range(norb + 1):
                alts.append(And(*([x == 1.0 for x in v[:k]] + [x == 0.0 for x in v[k:]])))
            return Or(*alts)
        ok = And(aufbau(list(occa)), aufbau(list(occb)))
        if twin:
            ok = aufbau(list(occa))
        ctx.oblige("fchk-rejects-exactly-non-aufbau-occupations", Not(ok) if rejected else ok, cls=f"{kind},norb={norb}")


def h_write_fault(ctx, fmt="xyz", many=False, kmax=12):
    """An exception at the k-th write surfaces as DumpError and the file is closed."""
    import iodata.api as api
    from iodata.iodata import IOData
    k = ctx.choice(list(range(1, kmax + 1)) + ["last"], label="k")
    path = ctx.tmp_path(FILENAMES[fmt])
    with stubbed(api):
        data = IOData(**rich_object(ctx, fmt))
        if k == "last":
            # count the writes of an undisturbed dump first
            ctx.scratch["nwrite"] = 0
            (api.dump_many([data, data], path, fmt=fmt) if many else api.dump_one(data, path, fmt=fmt))
            k = ctx.scratch["nwrite"]
            ctx.scratch["nwrite"] = 0
            ctx.events.clear()
        ctx.scratch["nwrite"] = 0
        ctx.scratch["write_fault_at"] = k
        if many:
            out, ev, _ = _run_dump(ctx, api, api.dump_many, [data, data], path, fmt=fmt)
        else:
            out, ev, _ = _run_dump(ctx, api, api.dump_one, data, path, fmt=fmt)
        ctx.scratch["write_fault_at"] = None
    fired = any(e[0] == "write_fault" for e in ev)
    cls = f"{fmt},{'many' if many else 'one'}"
    if fired:
        ctx.oblige("write-failure-surfaces-as-DumpError", out == "DumpError", cls=cls, detail=f"k={k} -> {out}")
    else:
        ctx.oblige("undisturbed-dump-succeeds", out == "ok", cls=cls, detail=f"k={k} -> {out}")
    ctx.oblige("file-closed-afterwards", _closed(ev), cls=cls)


def h_generator_error(ctx, fmt="xyz"):
    """dump_many fed by a generator that raises at frame k: once the file is open the failure surfaces as DumpError, whatever
    the type of the original exception (also IOData's own LoadError / FileFormatError / WriteInputError of a lazy pipeline)."""
    import iodata.api as api
    from iodata.iodata import IOData
    from iodata.utils import DumpError, FileFormatError, LoadError, PrepareDumpError, WriteInputError
    kind = ctx.choice(["RuntimeError", "LoadError", "FileFormatError", "WriteInputError", "KeyError"], label="exception")
    k = ctx.choice([0, 1, 2], label="raise-before-frame")
    exc_type = {"RuntimeError": RuntimeError, "LoadError": LoadError, "FileFormatError": FileFormatError,
                "WriteInputError": WriteInputError, "KeyError": KeyError}[kind]
    path = ctx.tmp_path(FILENAMES[fmt])
    with stubbed(api):
        frames = [IOData(**rich_object(ctx, fmt)) for _ in range(3)]
        raised = []

        def gen():
            for i, f in enumerate(frames):
                if i == k:
                    e = exc_type("lazy source failed") if kind in ("RuntimeError", "KeyError") else exc_type("lazy source failed", "in.xyz")
                    raised.append(e)
                    raise e
                yield f
        out, ev, _ = _run_dump(ctx, api, api.dump_many, gen(), path, fmt=fmt)
    cls = f"{fmt},{kind},k={k}"
    if k == 0:
        # nothing has been opened yet: the caller's own exception (or a pre-flight error) comes back, the target is untouched
        ctx.oblige("no-file-access-before-the-first-frame", not any(e[0] in ("open", "truncate", "write") for e in ev), cls=cls, detail=str(ev[:3]))
    else:
        ctx.oblige("failure-while-writing-surfaces-as-DumpError", out == "DumpError", cls=cls, detail=out)
        ctx.oblige("file-closed-afterwards", _closed(ev), cls=cls)


def h_misc(ctx):
    import iodata.api as api
    from iodata.iodata import IOData
    case = ctx.choice(["unknown-format", "unsupported-operation", "no-pattern", "empty-sequence", "empty-generator",
                       "open-fails", "write_input-unknown", "write_input-render-error", "later-frame-incompatible"])
    exists = ctx.choice([False, True], label="target-exists")
    path = ctx.tmp_path("a.xyz")
    with stubbed(api):
        data = IOData(**rich_object(ctx, "xyz"))
        if exists:
            ctx.write_text(path, "OLD CONTENT\n")
        if case == "unknown-format":
            out, ev, _ = _run_dump(ctx, api, api.dump_one, data, path, fmt="nonexistent")
            want = "FileFormatError"
        elif case == "unsupported-operation":
            out, ev, _ = _run_dump(ctx, api, api.dump_many, [data], path, fmt="cube")
            want = "FileFormatError"
        elif case == "no-pattern":
            p2 = ctx.tmp_path("a.unknownext")
            out, ev, _ = _run_dump(ctx, api, api.dump_one, data, p2)
            want = "FileFormatError"
        elif case == "empty-sequence":
            out, ev, _ = _run_dump(ctx, api, api.dump_many, [], path)
            want = "DumpError"
        elif case == "empty-generator":
            out, ev, _ = _run_dump(ctx, api, api.dump_many, (x for x in []), path)
            want = "DumpError"
        elif case == "open-fails":
            ctx.scratch["open_fails"] = True
            out, ev, _ = _run_dump(ctx, api, api.dump_one, data, path)
            ctx.scratch["open_fails"] = False
            want = "OSError"
        elif case == "write_input-unknown":
            out, ev, _ = _run_dump(ctx, api, api.write_input, data, path, fmt="nonexistent")
            want = "FileFormatError"
        elif case == "write_input-render-error":
            out, ev, _ = _run_dump(ctx, api, api.write_input, data, path, fmt="gaussian", template="{nosuchfield}")
            want = "WriteInputError"
        else:
            bad = IOData(**rich_object(ctx, "xyz"))
            bad.atcoords = None
            out, ev, _ = _run_dump(ctx, api, api.dump_many, (d for d in [data, bad, data]), path)
            want = "PrepareDumpError"
    ctx.oblige("error-class-per-contract", out == want, cls=case, detail=f"{out} (want {want})")
    if case in ("unknown-format", "unsupported-operation", "no-pattern", "empty-sequence", "empty-generator",
                "write_input-unknown"):
        touched = [e for e in ev if e[0] in ("open", "truncate", "write")]
        ctx.oblige("nothing-touched", not touched and ctx.read_text(path) == ("OLD CONTENT\n" if exists else None), cls=case)
    else:
        ctx.oblige("file-closed-afterwards", _closed(ev), cls=case)


LOAD_ONLY = {"water.com": "gaussianinput", "water.gro": "gromacs", "water_ccpvdz_pure_hf_g03.log": "gaussianlog",
             "ch3_hf_sto3g_fchk_multiwfn3.7.mwfn": "mwfn", "atom_om2.cp2k.out": "cp2klog"}


def h_unsupported_after_use(ctx, fmt="cube"):
    """The answer for an unsupported operation does not depend on what was done with the same file name before:
    dump_many to a dump_one-only format after a successful dump_one / load_one of that very path, and dump_one
    to a load-only format after a successful load_one of that path, still raise FileFormatError and touch nothing."""
    import os
    import iodata.api as api
    from iodata.iodata import IOData
    with stubbed(api):
        if fmt in DUMP_ONE:
            path = ctx.tmp_path(FILENAMES[fmt])
            data = IOData(**rich_object(ctx, fmt))
            prior = ctx.choice(["none", "dump_one", "dump_one+load_one"], label="prior-use")
            if prior != "none":
                out0, _, _ = _run_dump(ctx, api, api.dump_one, data, path)
                if prior.endswith("load_one"):      # (an unsuccessful earlier use is a history as well)
                    try:
                        api.load_one(path)
                    except Exception:
                        pass
            before = ctx.read_text(path)
            out, ev, _ = _run_dump(ctx, api, api.dump_many, [data, data], path)
            cls = f"dump_many-to-{fmt},prior={prior}"
        else:
            here = os.path.join(os.path.dirname(api.__file__), "test", "data", fmt)
            with open(here) as fh:
                text = fh.read()
            path = ctx.tmp_path(fmt)
            ctx.write_text(path, text)
            prior = ctx.choice(["none", "load_one"], label="prior-use")
            if prior == "load_one":
                try:
                    api.load_one(path)
                except Exception as e:
                    raise core.PathAbort(f"prior load_one failed: {e!r}")
            data = IOData(**rich_object(ctx, "xyz"))
            before = ctx.read_text(path)
            out, ev, _ = _run_dump(ctx, api, api.dump_one, data, path)
            cls = f"dump_one-to-{LOAD_ONLY[fmt]},prior={prior}"
    ctx.oblige("error-class-per-contract", out == "FileFormatError", cls=cls, detail=f"{out} (want FileFormatError)")
    touched = [e for e in ev if e[0] in ("open", "truncate", "write")]
    ctx.oblige("nothing-touched", not touched and ctx.read_text(path) == before, cls=cls)


def jobs(tier):
    M = "harness.c08"
    out = []
    for fmt in DUMP_ONE:
        out.append(job("C08", f"required[{fmt},one]", M, "h_required", dict(fmt=fmt, many=False), budget_s=300,
                       max_validate=6))
    for fmt in DUMP_MANY:
        out.append(job("C08", f"required[{fmt},many]", M, "h_required", dict(fmt=fmt, many=True), budget_s=300,
                       max_validate=6))
    for fmt in REASONS:
        out.append(job("C08", f"rejection[{fmt}]", M, "h_rejection", dict(fmt=fmt), max_validate=12))
    for n in (1, 2) + ((3,) if tier == "thorough" else ()):
        for kind in ("unrestricted", "restricted", "restricted-aminusb"):
            out.append(job("C08", f"fchk-aufbau[{kind},norb={n}]", M, "h_fchk_aufbau", dict(norb=n, kind=kind), budget_s=300,
                           max_validate=10))
    out.append(job("C08", "fchk-aufbau[twin]", M, "h_fchk_aufbau", dict(norb=1, twin=True), expect="cex"))
    kmax = 12 if tier == "quick" else 60
    for fmt in DUMP_ONE:
        out.append(job("C08", f"write-fault[{fmt},one]", M, "h_write_fault", dict(fmt=fmt, many=False, kmax=kmax),
                       max_validate=0, validate=False))
    for fmt in DUMP_MANY:
        out.append(job("C08", f"write-fault[{fmt},many]", M, "h_write_fault", dict(fmt=fmt, many=True, kmax=kmax),
                       max_validate=0, validate=False))
    for fmt in DUMP_MANY:
        out.append(job("C08", f"generator-error[{fmt}]", M, "h_generator_error", dict(fmt=fmt), validate=False))
    out.append(job("C08", "misc", M, "h_misc", {}, validate=False))
    for fmt in [f for f in DUMP_ONE if f not in DUMP_MANY] + list(LOAD_ONLY):
        out.append(job("C08", f"unsupported-after-use[{fmt}]", M, "h_unsupported_after_use", dict(fmt=fmt), validate=False))
    return out
