"""C12 - orbital and shell objects keep their derived quantities consistent."""

from __future__ import annotations

import numpy as np

from symx import core
from symx.core import And, Not, Or, Sym, sym_abs
from symx.runner import job
from symx.stubs import stubbed

META = dict(
    bounds=dict(
        quick="MolecularOrbitals: kinds restricted/unrestricted/generalized, norba,norbb in 0..2 (3 for views), "
              "all real occupation numbers in [-1,3] and occs_aminusb in [-2,2], assignment sequences of "
              "length <= 2 over {occs, occsa, occsb, occs_aminusb (set/clear)} with assigned vectors of the "
              "right and of wrong lengths; Shell: 1..3 contractions, l=0..9 (nbasis), kinds c/p and illegal "
              "combinations, mismatching shapes",
        thorough="as quick with norb <= 3 and sequences of length 3"),
    outside=["more than 3 orbitals per spin in the assignment histories", "float rounding",
             "angmom_sti/its string conversion (CrossHair harness, see C12 jobs ch_*)"],
    assumptions=["exact real arithmetic", "numpy replaced by symnp in iodata.orbitals/attrutils/basis "
                 "(object arrays, clip/astype(int) on terms)"],
    explanation="symbolic execution of MolecularOrbitals / Shell accessors and setters",
)


def _mods():
    import iodata.attrutils as A
    import iodata.basis as B
    import iodata.orbitals as O
    return O, A, B


def _vec(ctx, name, n, lo, hi):
    return ctx.real_array(name, (n,), lo=lo, hi=hi)


def _check_invariants(ctx, mo, tag, twin=False):
    """occsa+occsb=occs, nelec=sum, spinpol=|sum a - sum b| on the current state."""
    if mo.occs is None:
        ctx.oblige(f"{tag}:none-propagates", mo.occsa is None and mo.occsb is None and mo.nelec is None
                   and mo.spinpol is None)
        return
    a, b = mo.occsa, mo.occsb
    if mo.kind == "restricted":
        ctx.oblige(f"{tag}:occsa+occsb=occs", ctx.eq(a + b, mo.occs), cls=mo.kind)
    else:
        ctx.oblige(f"{tag}:occsa|occsb=occs", ctx.eq(list(a) + list(b), list(mo.occs)), cls=mo.kind)
    ctx.oblige(f"{tag}:nelec=sum(occs)", ctx.eq(mo.nelec, sum(list(mo.occs), 0.0)), cls=mo.kind)
    sa, sb = sum(list(a), 0.0), sum(list(b), 0.0)
    if twin:
        sa = sa + 1.0   # deliberately wrong oracle (sensitivity twin)
    has_ab = mo.occs_aminusb is not None
    ctx.oblige(f"{tag}:spinpol=|na-nb|", ctx.eq(mo.spinpol, sym_abs(sa - sb) if ctx.mode == "sym" else abs(sa - sb)),
               cls=f"{mo.kind},aminusb={'set' if has_ab else 'none'}")


def h_mo_history(ctx, kind="restricted", norba=2, norbb=2, depth=2, init_occs=True, init_ab=False, twin=False,
                 op0=None):
    O, A, B = _mods()
    norb = norba if kind == "restricted" else norba + norbb
    with stubbed(O, A):
        occs = _vec(ctx, "occ", norb, -1, 3) if init_occs else None
        ab = _vec(ctx, "ab", norb, -2, 2) if init_ab else None
        mo = O.MolecularOrbitals(kind, norba, norbb, occs, None, None, None, ab)
        _check_invariants(ctx, mo, "init", twin)
        for step in range(depth):
            menu = ["occsa", "occsb", "occs", "aminusb", "aminusb=None"]
            if step == 0 and op0 is not None:
                menu = [op0]
            op = ctx.choice(menu, label=f"op{step}")
            if op in ("occsa", "occsb"):
                nspin = norba if op == "occsa" else norbb
                lens = [nspin] + [k for k in (1, nspin + 1) if k != nspin]
                L = ctx.choice(lens, label=f"len{step}")
                v = _vec(ctx, f"v{step}", L, -1, 3)
                other_name = "occsb" if op == "occsa" else "occsa"
                before_other = getattr(mo, other_name)
                before_other = None if before_other is None else np.array(before_other, dtype=object if ctx.mode == "sym" else float)
                had_occs = mo.occs is not None
                try:
                    setattr(mo, op, v)
                    ok = True
                except (TypeError, ValueError, IndexError, NotImplementedError):
                    ok = False
                if L != nspin:
                    ctx.oblige(f"assign-{op}:wrong-length-rejected", not ok,
                               cls=f"{kind},len={L},n={nspin}")
                    if ok:
                        return  # state is not meaningful any more
                    continue
                if not ok:
                    # the weaker reading accepts a refusal (e.g. unrestricted without occs)
                    ctx.note(f"{op} assignment refused")
                    continue
                ctx.oblige(f"assign-{op}:reads-back", ctx.eq(getattr(mo, op), v), cls=kind)
                if had_occs and before_other is not None:
                    ctx.oblige(f"assign-{op}:other-spin-unchanged", ctx.eq(getattr(mo, other_name), before_other),
                               cls=kind)
            elif op == "occs":
                lens = [norb] + [k for k in (1, norb + 1) if k != norb and norb > 0]
                L = ctx.choice(lens, label=f"len{step}")
                v = _vec(ctx, f"v{step}", L, -1, 3)
                try:
                    mo.occs = v
                    ok = True
                except (TypeError, ValueError):
                    ok = False
                if L != norb:
                    ctx.oblige("assign-occs:wrong-length-rejected", not ok, cls=f"{kind},len={L},n={norb}")
                    if ok:
                        return
                    continue
                ctx.oblige("assign-occs:accepted", ok, cls=kind)
                ctx.oblige("assign-occs:reads-back", ctx.eq(mo.occs, v), cls=kind)
            elif op == "aminusb":
                v = _vec(ctx, f"v{step}", norb, -2, 2)
                try:
                    mo.occs_aminusb = v
                    ok = True
                except (TypeError, ValueError):
                    ok = False
                ctx.oblige("assign-aminusb:only-restricted", ok == (kind == "restricted"), cls=kind)
            else:
                mo.occs_aminusb = None
            _check_invariants(ctx, mo, f"after{step}", twin)


def h_mo_views(ctx, kind="unrestricted", norba=2, norbb=1, nbasis=2):
    """coeffs/energies/irreps views are the documented slices."""
    O, A, B = _mods()
    norb = norba if kind == "restricted" else norba + norbb
    with stubbed(O, A):
        coeffs = ctx.real_array("c", (nbasis, norb))
        energies = ctx.real_array("e", (norb,))
        irreps = [f"irr{i}" for i in range(norb)]
        mo = O.MolecularOrbitals(kind, norba, norbb, None, coeffs, energies, irreps)
        ctx.oblige("norb", mo.norb == norb, cls=kind)
        ctx.oblige("nbasis", mo.nbasis == nbasis, cls=kind)
        if kind == "restricted":
            exp = dict(coeffsa=coeffs, coeffsb=coeffs, energiesa=energies, energiesb=energies,
                       irrepsa=irreps, irrepsb=irreps)
        else:
            exp = dict(coeffsa=coeffs[:, :norba], coeffsb=coeffs[:, norba:], energiesa=energies[:norba],
                       energiesb=energies[norba:], irrepsa=irreps[:norba], irrepsb=irreps[norba:])
        for name, e in exp.items():
            got = getattr(mo, name)
            if name.startswith("irreps"):
                ctx.oblige(f"view-{name}", list(got) == list(e), cls=kind)
            else:
                ctx.oblige(f"view-{name}", ctx.eq(got, e), cls=kind)
        # occupations absent: everything derived is None
        ctx.oblige("none-occs", mo.occsa is None and mo.occsb is None and mo.nelec is None and mo.spinpol is None)


def h_mo_generalized(ctx, norb=2, nbasis=1):
    O, A, B = _mods()
    with stubbed(O, A):
        occs = ctx.real_array("occ", (norb,), lo=0, hi=1)
        coeffs = ctx.real_array("c", (2 * nbasis, norb))
        mo = O.MolecularOrbitals("generalized", None, None, occs, coeffs, None, None)
        ctx.oblige("gen:nelec", ctx.eq(mo.nelec, sum(list(occs), 0.0)))
        ctx.oblige("gen:norb", mo.norb == norb)
        ctx.oblige("gen:nbasis", mo.nbasis == nbasis)
        for name in ("occsa", "occsb", "coeffsa", "coeffsb", "energiesa", "energiesb", "irrepsa", "irrepsb",
                     "spinpol"):
            try:
                getattr(mo, name)
                refused = False
            except NotImplementedError:
                refused = True
            ctx.oblige(f"gen:refuses-{name}", refused)
        for name in ("occsa", "occsb"):
            try:
                setattr(mo, name, occs)
                refused = False
            except NotImplementedError:
                refused = True
            ctx.oblige(f"gen:refuses-set-{name}", refused)
        # norba / norbb must be None, occs_aminusb must be None
        for args in ((1, None), (None, 1), (1, 1)):
            try:
                O.MolecularOrbitals("generalized", args[0], args[1], occs, coeffs)
                rej = False
            except ValueError:
                rej = True
            ctx.oblige("gen:norbab-must-be-None", rej, cls=str(args))
        try:
            O.MolecularOrbitals("generalized", None, None, occs, coeffs, None, None, occs)
            rej = False
        except ValueError:
            rej = True
        ctx.oblige("gen:aminusb-rejected", rej)


def h_mo_construct_reject(ctx, kind="restricted", norba=2, norbb=2):
    """Arrays whose lengths disagree with the number of orbitals and contradictory kinds are rejected."""
    O, A, B = _mods()
    norb = norba if kind == "restricted" else norba + norbb
    with stubbed(O, A):
        which = ctx.choice(["occs", "coeffs", "energies", "irreps", "occs_aminusb", "kind", "norbab", "none-count"])
        bad = norb + ctx.choice([1, -1] if norb > 0 else [1])
        good_occs = ctx.real_array("occ", (norb,))
        kw = dict(occs=good_occs, coeffs=None, energies=None, irreps=None, occs_aminusb=None)
        k, a, b = kind, norba, norbb
        expect_reject = True
        if which == "occs":
            kw["occs"] = ctx.real_array("x", (bad,))
        elif which == "coeffs":
            kw["coeffs"] = ctx.real_array("x", (2, bad))
        elif which == "energies":
            kw["energies"] = ctx.real_array("x", (bad,))
        elif which == "irreps":
            kw["irreps"] = ["a"] * bad
        elif which == "occs_aminusb":
            if kind == "restricted":
                kw["occs_aminusb"] = ctx.real_array("x", (bad,))
            else:
                kw["occs_aminusb"] = ctx.real_array("x", (norb,))   # right length, wrong kind
        elif which == "kind":
            k = "open-shell"
        elif which == "norbab":
            if kind == "restricted":
                b = norbb + 1
                kw["occs"] = None
            else:
                expect_reject = False
        else:
            a = None
            kw["occs"] = None
        try:
            O.MolecularOrbitals(k, a, b, kw["occs"], kw["coeffs"], kw["energies"], kw["irreps"], kw["occs_aminusb"])
            rejected = False
        except (TypeError, ValueError):
            rejected = True
        if expect_reject:
            ctx.oblige("construct:inconsistent-rejected", rejected, cls=f"{kind},{which}")
        else:
            ctx.oblige("construct:consistent-accepted", not rejected, cls=f"{kind},{which}")


def h_shell(ctx, ncon=2, nexp=2, case="ok"):
    O, A, B = _mods()
    with stubbed(B, A):
        ls = [ctx.choice(list(range(0, 10)), label=f"l{i}") for i in range(ncon)] if ncon <= 1 else \
            [ctx.choice([0, 1, 2, 5, 9], label=f"l{i}") for i in range(ncon)]
        kinds = [ctx.choice(["c", "p"], label=f"k{i}") for i in range(ncon)]
        exps = ctx.real_array("a", (nexp,), lo=0.01, hi=1e5)
        coeffs = ctx.real_array("d", (nexp, ncon))
        args = dict(icenter=0, angmoms=ls, kinds=kinds, exponents=exps, coeffs=coeffs)
        if case == "ok":
            sh = B.Shell(**args)
            ctx.oblige("shell:ncon", sh.ncon == ncon)
            ctx.oblige("shell:nexp", sh.nexp == nexp)
            legal = all(not (k == "p" and l < 2) for l, k in zip(ls, kinds))
            try:
                nb = sh.nbasis
                raised = False
            except TypeError:
                raised = True
            if legal:
                exp = sum((l + 1) * (l + 2) // 2 if k == "c" else 2 * l + 1 for l, k in zip(ls, kinds))
                ctx.oblige("shell:nbasis-formula", (not raised) and nb == exp, cls=f"{ls},{kinds}")
            else:
                ctx.oblige("shell:pure-s-or-p-rejected", raised, cls=f"{ls},{kinds}")
            return
        if case == "angmoms":
            args["angmoms"] = ls + [0]
        elif case == "kinds":
            args["kinds"] = kinds + ["c"]
        elif case == "exponents":
            args["exponents"] = ctx.real_array("a2", (nexp + 1,), lo=0.01, hi=1e5)
        elif case == "coeffs-rows":
            args["coeffs"] = ctx.real_array("d2", (nexp + 1, ncon))
        elif case == "coeffs-cols":
            args["coeffs"] = ctx.real_array("d2", (nexp, ncon + 1))
        elif case == "coeffs-1d":
            args["coeffs"] = ctx.real_array("d2", (nexp,))
        elif case == "badkind":
            args["kinds"] = ["x"] * ncon
        try:
            sh = B.Shell(**args)
            rejected = False
            if case == "badkind":
                try:
                    sh.nbasis
                except TypeError:
                    rejected = True
        except (TypeError, ValueError, IndexError):
            rejected = True
        ctx.oblige("shell:shape-mismatch-rejected", rejected, cls=case)


def jobs(tier):
    M = "harness.c12"
    out = []
    depth = 3 if tier == "thorough" else 2
    nmax = 3 if tier == "thorough" else 2
    for kind in ("restricted", "unrestricted"):
        for na in range(0, nmax + 1):
            nbs = [na] if kind == "restricted" else range(0, nmax + 1)
            for nb in nbs:
                for init_occs in (True, False):
                    for init_ab in ((False, True) if kind == "restricted" and init_occs else (False,)):
                        if na == 0 and nb == 0 and not init_occs:
                            continue
                        shards = [None]
                        if kind == "restricted" and na >= 2 and init_occs:
                            shards = ["occsa", "occsb", "occs", "aminusb", "aminusb=None"]
                        for op0 in shards:
                            nm = f"mo-history[{kind},{na},{nb},occs={int(init_occs)},ab={int(init_ab)}" + \
                                (f",op0={op0}]" if op0 else "]")
                            out.append(job("C12", nm, M, "h_mo_history",
                                           dict(kind=kind, norba=na, norbb=nb, depth=depth, init_occs=init_occs,
                                                init_ab=init_ab, op0=op0),
                                           budget_s=150 if tier == "quick" else 1500, max_validate=20))
    out.append(job("C12", "mo-history[twin]", M, "h_mo_history",
                   dict(kind="restricted", norba=1, norbb=1, depth=1, twin=True, init_ab=True), expect="cex"))
    for kind, na, nb in (("restricted", 2, 2), ("unrestricted", 2, 1), ("unrestricted", 0, 2), ("unrestricted", 3, 0),
                         ("restricted", 0, 0)):
        out.append(job("C12", f"mo-views[{kind},{na},{nb}]", M, "h_mo_views", dict(kind=kind, norba=na, norbb=nb)))
    out.append(job("C12", "mo-generalized", M, "h_mo_generalized", {}))
    for kind, na, nb in (("restricted", 2, 2), ("unrestricted", 1, 2), ("unrestricted", 0, 1), ("restricted", 0, 0), ("unrestricted", 0, 0),
                         ("restricted", 1, 1), ("unrestricted", 3, 0)):
        out.append(job("C12", f"mo-construct-reject[{kind},{na},{nb}]", M, "h_mo_construct_reject",
                       dict(kind=kind, norba=na, norbb=nb)))
    for ncon in (1, 2, 3):
        out.append(job("C12", f"shell-ok[ncon={ncon}]", M, "h_shell", dict(ncon=ncon, nexp=2, case="ok"),
                       max_validate=30))
    for case in ("angmoms", "kinds", "exponents", "coeffs-rows", "coeffs-cols", "coeffs-1d", "badkind"):
        out.append(job("C12", f"shell-reject[{case}]", M, "h_shell", dict(ncon=1, nexp=2, case=case)))
    for fn in ("check_angmom_roundtrip", "check_angmom_sti", "check_angmom_negative"):
        out.append(job("C12", f"crosshair[{fn}]", "harness.ch_contracts", fn,
                       dict(file="harness/ch_contracts.py", func=fn, timeout=20 if tier == "quick" else 90), kind="crosshair"))
    return out
