"""C10 - basis-function convention conversion is an exact signed permutation."""

from __future__ import annotations

import itertools

import numpy as np
import z3

from symx import core
from symx.core import And, Not, Or, Sym, SymBool
from symx.labels import SymLabel
from symx.runner import job
from symx.stubs import stubbed

META = dict(
    bounds=dict(
        quick="(i) arbitrary conventions: two (three for composition) label lists of n <= 3 labels with symbolic "
              "identities and sign bits, lists of unequal length, reverse flag, all real coefficient vectors; "
              "(ii) every ordered pair of the built-in tables (fchk, molden, molden-ORCA, molekel, wfn, wfx, mwfn, cp2klog, "
              "HORTON2, CCA) on every shared shell type with l <= 5 (Cartesian) / 5 (pure), bases of 1-2 shells incl. a "
              "generalized contraction, symbolic coefficient vectors; table well-formedness for all listed l; all "
              "single-label corruptions (drop, duplicate, rename, sign) of every table entry with l <= 3",
        thorough="(i) with n <= 4; (ii) all l up to 9, bases of up to 3 shells; corruptions for l <= 5"),
    outside=["n > 4 symbolic labels", "labels that differ only in the number of leading '-' characters"],
    assumptions=["labels are modelled as (identity, sign) pairs: startswith('-'), lstrip('-'), ==, hash only",
                 "exact real arithmetic"],
    explanation="symbolic execution of convert._convert_convention_shell / convert_conventions",
)


def _labels(ctx, name, n):
    out = []
    for i in range(n):
        if ctx.mode == "conc":
            ident = ctx.int(f"{name}{i}_id")
            neg = ctx.bool(f"{name}{i}_neg")
            out.append(("-" if neg else "") + f"f{ident}")
        else:
            ident = ctx.int(f"{name}{i}_id", lo=0, hi=9)
            neg = ctx.bool(f"{name}{i}_neg")
            out.append(SymLabel(ident.t, neg.t, f"{name}{i}"))
    return out


def _parts(lab):
    """(identity, sign) of a label in both modes."""
    if isinstance(lab, SymLabel):
        s = Sym(z3.If(lab.neg, z3.IntVal(-1), z3.IntVal(1))) if not isinstance(lab.neg, bool) else (-1 if lab.neg else 1)
        return Sym(lab.ident), s
    neg = lab.startswith("-")
    return lab.lstrip("-"), (-1 if neg else 1)


def _ideq(a, b):
    if isinstance(a, Sym) or isinstance(b, Sym):
        return a == b
    return a == b


def _valid(c1, c2):
    """The two conventions name the same functions (each exactly once)."""
    if len(c1) != len(c2):
        return False
    i1 = [_parts(x)[0] for x in c1]
    i2 = [_parts(x)[0] for x in c2]
    parts = []
    for lst in (i1, i2):
        for a, b in itertools.combinations(lst, 2):
            parts.append(Not(_ideq(a, b)))
    for a in i1:
        parts.append(Or(*[_ideq(a, b) for b in i2]) if i2 else False)
    for b in i2:
        parts.append(Or(*[_ideq(a, b) for a in i1]) if i1 else False)
    return And(*parts) if parts else True


def _apply(v, perm, signs):
    return [v[p] * s for p, s in zip(perm, signs)]


def h_shell_sym(ctx, n1=2, n2=2, reverse=False, twin=False):
    import iodata.convert as C
    c1 = _labels(ctx, "a", n1)
    c2 = _labels(ctx, "b", n2)
    v = list(ctx.real_array("v", (n2 if reverse else n1,)))
    try:
        perm, signs = C._convert_convention_shell(c1, c2, reverse)
        err = False
    except ValueError:
        err = True
    valid = _valid(c1, c2)
    if err:
        ctx.oblige("rejects-only-mismatching-conventions", Not(valid), cls=f"n={n1},{n2}")
        return
    ctx.oblige("accepts-only-matching-conventions", valid, cls=f"n={n1},{n2}")
    out = _apply(v, perm, signs)
    src, dst = (c2, c1) if reverse else (c1, c2)
    parts = []
    for j, lj in enumerate(dst):
        idj, sj = _parts(lj)
        for i, li in enumerate(src):
            idi, si = _parts(li)
            want = v[i] * si * sj
            if twin:
                want = v[i] * si
            parts.append(core.Implies(_ideq(idi, idj), ctx.eq(out[j], want)))
    ctx.oblige("signed-permutation", And(*parts), cls=f"n={n1},rev={reverse}")
    # there-and-back (reverse flag) is the identity
    perm_b, signs_b = C._convert_convention_shell(c1, c2, not reverse)
    back = _apply(out, perm_b, signs_b)
    ctx.oblige("there-and-back-is-identity", ctx.eq(back, v), cls=f"n={n1},rev={reverse}")


def h_compose_sym(ctx, n=2):
    import iodata.convert as C
    a = _labels(ctx, "a", n)
    b = _labels(ctx, "b", n)
    c = _labels(ctx, "c", n)
    v = list(ctx.real_array("v", (n,)))
    try:
        pab, sab = C._convert_convention_shell(a, b)
        pbc, sbc = C._convert_convention_shell(b, c)
    except ValueError:
        return
    try:
        pac, sac = C._convert_convention_shell(a, c)
    except ValueError:
        ctx.oblige("A->C-accepted-when-A->B-and-B->C-are", False, cls=f"n={n}")
        return
    via = _apply(_apply(v, pab, sab), pbc, sbc)
    direct = _apply(v, pac, sac)
    ctx.oblige("A->B->C=A->C", ctx.eq(via, direct), cls=f"n={n}")


# ------------------------------------------------------------------------------------------
# built-in tables


def tables():
    import iodata.convert as C
    import iodata.formats.cp2klog as cp2k
    import iodata.formats.fchk as fchk
    import iodata.formats.molden as molden
    import iodata.formats.molekel as molekel
    import iodata.formats.mwfn as mwfn
    import iodata.formats.wfn as wfn
    import iodata.formats.wfx as wfx
    t = {
        "fchk": fchk.CONVENTIONS, "molden": molden.CONVENTIONS, "molekel": molekel.CONVENTIONS,
        "wfn": wfn.CONVENTIONS, "wfx": wfx.CONVENTIONS, "mwfn": mwfn.CONVENTIONS, "cp2klog": cp2k.CONVENTIONS,
        "HORTON2": C.HORTON2_CONVENTIONS, "CCA": C.CCA_CONVENTIONS,
    }
    # the ORCA-fix table lives inside a function: obtain it by running the function on a probe basis
    t["molden-orca"] = _orca_table(molden)
    return t


def _orca_table(molden):
    """The convention dictionary _fix_obasis_orca attaches to the basis it returns."""
    from iodata.basis import MolecularBasis, Shell
    ob = MolecularBasis([Shell(0, [0], ["c"], [1.0], [[1.0]])], molden.CONVENTIONS, "L2")
    return molden._fix_obasis_orca(ob).conventions


def _powers(label):
    s = label.lstrip("-")
    if s == "1":
        return (0, 0, 0)
    return (s.count("x"), s.count("y"), s.count("z"))


def _expected_labels(l, kind):
    if kind == "c":
        return sorted((a, b, l - a - b) for a in range(l + 1) for b in range(l + 1 - a))
    return sorted(["c0"] + [f"{cs}{m}" for m in range(1, l + 1) for cs in "cs"])


def h_table_wellformed(ctx, table="fchk"):
    """Every entry lists each function of its shell type exactly once (ground facts)."""
    tabs = tables()
    conv = tabs[table]
    for (l, kind), labels in sorted(conv.items()):
        if kind == "c":
            got = sorted(_powers(x) for x in labels)
            ok = got == _expected_labels(l, "c") and all(
                x.lstrip("-") in ("1",) or set(x.lstrip("-")) <= set("xyz") for x in labels)
        else:
            got = sorted(x.lstrip("-") for x in labels)
            ok = got == _expected_labels(l, "p")
        ok = ok and all(len(x) - len(x.lstrip("-")) <= 1 for x in labels)
        ctx.oblige("table-lists-each-function-once", ok, cls=f"{table},{l}{kind}")
    # documented orders (transcribed from the public format descriptions, see specs/conventions_ref.py)
    from specs.conventions_ref import DOCUMENTED
    for key, ref in DOCUMENTED.get(table, {}).items():
        if key in conv:
            if key[1] == "c":
                ok = [_powers(x) for x in conv[key]] == [_powers(x) for x in ref] and \
                    not any(x.startswith("-") for x in conv[key])
            else:
                ok = list(conv[key]) == list(ref)
            ctx.oblige("table-order-as-documented", ok, cls=f"{table},{key[0]}{key[1]}")


def _spec_map(conv1, conv2):
    """Independent spec: for each target position the source position and the sign."""
    pos = {}
    for i, lab in enumerate(conv1):
        pos[lab.lstrip("-")] = (i, -1 if lab.startswith("-") else 1)
    out = []
    for lab in conv2:
        i, s1 = pos[lab.lstrip("-")]
        out.append((i, s1 * (-1 if lab.startswith("-") else 1)))
    return out


def h_tables_pair(ctx, t1="fchk", t2="molden", lmax=5, nshell=2, twin=False, layout="auto"):
    """convert_conventions between two built-in tables on bases over the shared shell types."""
    import iodata.convert as C
    from iodata.basis import MolecularBasis, Shell
    tabs = tables()
    c1, c2 = tabs[t1], tabs[t2]
    shared = sorted(k for k in c1 if k in c2 and k[0] <= lmax)
    if not shared:
        return
    keys = [ctx.choice(shared, label=f"shell{i}") for i in range(nshell)]
    gen = ctx.choice([False, True], label="generalized") if nshell >= 2 and layout == "auto" else False
    if layout == "s+gen":
        # an ordinary shell followed by one generalized contraction holding all the other (three or more) contractions
        rest = keys[1:]
        shells = [Shell(0, [keys[0][0]], [keys[0][1]], [1.0], [[1.0]]),
                  Shell(1, [k[0] for k in rest], [k[1] for k in rest], [1.0], [[1.0] * len(rest)])]
    elif gen:
        shells = [Shell(0, [k[0] for k in keys], [k[1] for k in keys], [1.0], [[1.0] * len(keys)])]
    else:
        shells = [Shell(i, [k[0]], [k[1]], [1.0], [[1.0]]) for i, k in enumerate(keys)]
    ob = MolecularBasis(shells, c1, "L2")
    nb = sum(len(c1[k]) for k in keys)
    v = ctx.real_array("v", (nb,))
    with stubbed(C):
        perm, signs = C.convert_conventions(ob, c2)
        out = v[perm] * signs
        permr, signsr = C.convert_conventions(ob, c2, reverse=True)
        back = out[permr] * signsr
    # spec
    exp = []
    off = 0
    for k in keys:
        for i, s in _spec_map(c1[k], c2[k]):
            exp.append(v[off + i] * s)
        off += len(c1[k])
    if twin:
        exp[0] = exp[0] + 1.0
    ctx.oblige("tables:signed-permutation-with-offsets", ctx.eq(list(out), exp), cls=f"{t1}->{t2}")
    ctx.oblige("tables:reverse-is-inverse", ctx.eq(list(back), list(v)), cls=f"{t1}->{t2}")


def h_tables_triple(ctx, t1="fchk", t2="molden", t3="wfn", lmax=4):
    import iodata.convert as C
    from iodata.basis import MolecularBasis, Shell
    tabs = tables()
    c1, c2, c3 = tabs[t1], tabs[t2], tabs[t3]
    shared = sorted(k for k in c1 if k in c2 and k in c3 and k[0] <= lmax)
    if not shared:
        return
    k = ctx.choice(shared, label="shell")
    v = ctx.real_array("v", (len(c1[k]),))
    sh = [Shell(0, [k[0]], [k[1]], [1.0], [[1.0]])]
    with stubbed(C):
        p12, s12 = C.convert_conventions(MolecularBasis(sh, c1, "L2"), c2)
        p23, s23 = C.convert_conventions(MolecularBasis(sh, c2, "L2"), c3)
        p13, s13 = C.convert_conventions(MolecularBasis(sh, c1, "L2"), c3)
        via = (v[p12] * s12)[p23] * s23
        direct = v[p13] * s13
    ctx.oblige("tables:A->B->C=A->C", ctx.eq(list(via), list(direct)), cls=f"{t1}->{t2}->{t3}")


def h_table_corruption(ctx, table="fchk", lmax=3):
    """Every single-label corruption of a table entry is rejected (never silently mis-mapped)."""
    import iodata.convert as C
    from iodata.basis import MolecularBasis, Shell
    tabs = tables()
    conv = tabs[table]
    keys = sorted(k for k in conv if k[0] <= lmax and len(conv[k]) > 1)
    if not keys:
        return
    k = ctx.choice(keys, label="entry")
    labels = list(conv[k])
    pos = ctx.choice(list(range(len(labels))), label="pos")
    how = ctx.choice(["drop", "duplicate", "rename", "append"], label="how")
    bad = list(labels)
    if how == "drop":
        del bad[pos]
    elif how == "duplicate":
        bad[pos] = labels[(pos + 1) % len(labels)]
    elif how == "rename":
        bad[pos] = labels[pos] + "q"
    else:
        bad.insert(pos, labels[pos] + "q")
    corrupt = dict(conv)
    corrupt[k] = bad
    ob = MolecularBasis([Shell(0, [k[0]], [k[1]], [1.0], [[1.0]])], conv, "L2")
    for direction in ("to", "from"):
        try:
            if direction == "to":
                C.convert_conventions(ob, corrupt)
            else:
                C.convert_conventions(MolecularBasis(ob.shells, corrupt, "L2"), conv)
            rejected = False
        except ValueError:
            rejected = True
        ctx.oblige("corrupted-table-rejected", rejected, cls=f"{table},{how},{direction}")


def jobs(tier):
    M = "harness.c10"
    out = []
    nmax = 4 if tier == "thorough" else 3
    for n in range(1, nmax + 1):
        for rev in (False, True):
            out.append(job("C10", f"shell-sym[n={n},rev={int(rev)}]", M, "h_shell_sym",
                           dict(n1=n, n2=n, reverse=rev), budget_s=300 if tier == "quick" else 3000,
                           max_validate=30))
    out.append(job("C10", "shell-sym[n=2/3]", M, "h_shell_sym", dict(n1=2, n2=3)))
    out.append(job("C10", "shell-sym[n=2,twin]", M, "h_shell_sym", dict(n1=2, n2=2, twin=True), expect="cex"))
    for n in range(1, (3 if tier == "thorough" else 2) + 1):
        out.append(job("C10", f"compose-sym[n={n}]", M, "h_compose_sym", dict(n=n),
                       budget_s=300 if tier == "quick" else 3000, max_validate=30))
    names = ["fchk", "molden", "molden-orca", "molekel", "wfn", "wfx", "mwfn", "cp2klog", "HORTON2", "CCA"]
    for t in names:
        out.append(job("C10", f"table-wellformed[{t}]", M, "h_table_wellformed", dict(table=t), validate=False))
        out.append(job("C10", f"table-corruption[{t}]", M, "h_table_corruption",
                       dict(table=t, lmax=3 if tier == "quick" else 5), validate=False, budget_s=600))
    lmax = 5 if tier == "quick" else 9
    for t1 in names:
        for t2 in names:
            if t1 == t2:
                continue
            out.append(job("C10", f"tables-pair[{t1}->{t2}]", M, "h_tables_pair",
                           dict(t1=t1, t2=t2, lmax=lmax, nshell=2 if tier == "quick" else 3),
                           budget_s=300 if tier == "quick" else 3000, max_validate=6))
    # a generalized contraction with three (thorough: four) contractions behind an ordinary shell
    for t1, t2 in (("HORTON2", "CCA"), ("fchk", "molden"), ("CCA", "wfn"), ("molden-orca", "HORTON2"), ("cp2klog", "fchk")):
        if t1 in names and t2 in names:
            out.append(job("C10", f"tables-pair-gen[{t1}->{t2}]", M, "h_tables_pair",
                           dict(t1=t1, t2=t2, lmax=2, nshell=4 if tier == "quick" else 5, layout="s+gen"),
                           budget_s=300 if tier == "quick" else 3000, max_validate=6, max_paths=1500))
    out.append(job("C10", "tables-pair[twin]", M, "h_tables_pair", dict(t1="fchk", t2="wfn", lmax=2, nshell=1, twin=True),
                   expect="cex"))
    trip = [("fchk", "molden", "wfn"), ("HORTON2", "CCA", "fchk"), ("molden-orca", "molden", "fchk"),
            ("wfn", "mwfn", "molekel"), ("cp2klog", "CCA", "molden-orca")]
    if tier == "thorough":
        trip = list(itertools.permutations(names, 3))
    for a, b, c in trip:
        out.append(job("C10", f"tables-triple[{a}->{b}->{c}]", M, "h_tables_triple",
                       dict(t1=a, t2=b, t3=c, lmax=4 if tier == "quick" else 6), max_validate=4))
    return out
