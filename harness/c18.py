"""C18 - the command-line converter does exactly what the API does."""

from __future__ import annotations

import itertools
import sys

import z3

from symx import core
from symx.core import PathAbort, SymBool
from symx.runner import job

META = dict(
    bounds=dict(
        quick="convert(): all file names and formats (uninterpreted constants, formats optional), all boolean values of "
              "many / allow_changes (symbolic); main(): all 16 subsets of {-i, -o, -c, -m} x short/long spelling x 3 "
              "argument orders with distinct constants as values; error paths: the API call that fails (load / dump / none) x six "
              "exception types incl. the API's own x output file pre-existing or not: the exception object escapes as it is, "
              "nothing is retried, and convert() leaves input and pre-existing output untouched (real temporary directory); the same "
              "through main(): an API error ends the run with an exception or a non-zero SystemExit, never a normal return",
        thorough="same"),
    outside=["the subprocess / console-script entry point and Python's exit status for an escaping exception (trusted)",
             "argparse internals", "np.seterr(..., 'raise') in main() can only turn a success into a failure",
             "byte equality of the written file follows from this composition law together with C16 (results depend "
             "only on the arguments) and C08 (pre-flight errors spare existing files); it is not re-proved here"],
    assumptions=["the four API functions are replaced by uninterpreted functions that record their arguments (EUF)"],
    explanation="symbolic execution of __main__.convert/main with the API as uninterpreted functions; z3 (EUF) proves "
                "the effect term equal to the API composition",
)

S = z3.DeclareSort("Str")
D = z3.DeclareSort("Data")
E = z3.DeclareSort("Effect")
B = z3.BoolSort()
NONE = z3.Const("None", S)
f_load_one = z3.Function("load_one", S, S, D)
f_load_many = z3.Function("load_many", S, S, D)
f_dump_one = z3.Function("dump_one", D, S, B, S, E)
f_dump_many = z3.Function("dump_many", D, S, B, S, E)


class _T:
    """A value travelling through the real code: wraps a z3 term of sort Str or Data."""

    def __init__(self, t):
        self.t = t


def _s(x):
    if x is None:
        return NONE
    if isinstance(x, _T):
        return x.t
    raise PathAbort(f"unexpected argument {x!r}")


def _b(x):
    if isinstance(x, SymBool):
        return x.t
    if isinstance(x, bool):
        return z3.BoolVal(x)
    raise PathAbort(f"unexpected flag {x!r}")


def _run_convert(ctx, call):
    """Run ``call(main_module)`` with the API replaced by recording UFs. Returns the list of effects."""
    import iodata.__main__ as M
    effects = []

    def load_one(filename, *, fmt=None, **kw):
        if kw:
            raise PathAbort("unexpected keyword")
        return _T(f_load_one(_s(filename), _s(fmt)))

    def load_many(filename, *, fmt=None, **kw):
        if kw:
            raise PathAbort("unexpected keyword")
        return _T(f_load_many(_s(filename), _s(fmt)))

    def dump_one(data, filename, *, fmt=None, allow_changes=False, **kw):
        if kw:
            raise PathAbort("unexpected keyword")
        effects.append(f_dump_one(_s(data), _s(filename), _b(allow_changes), _s(fmt)))
        return data

    def dump_many(iter_data, filename, *, fmt=None, allow_changes=False, **kw):
        if kw:
            raise PathAbort("unexpected keyword")
        effects.append(f_dump_many(_s(iter_data), _s(filename), _b(allow_changes), _s(fmt)))

    saved = {n: getattr(M, n) for n in ("load_one", "load_many", "dump_one", "dump_many")}
    M.load_one, M.load_many, M.dump_one, M.dump_many = load_one, load_many, dump_one, dump_many
    try:
        call(M)
    finally:
        for n, v in saved.items():
            setattr(M, n, v)
    return effects


def h_convert(ctx, infmt=True, outfmt=True, twin=False):
    if ctx.mode == "conc":
        return _concrete(ctx, twin, f"infmt={infmt},outfmt={outfmt}", infmt, outfmt)
    infn, outfn = _T(z3.Const("infn", S)), _T(z3.Const("outfn", S))
    i = _T(z3.Const("infmt", S)) if infmt else None
    o = _T(z3.Const("outfmt", S)) if outfmt else None
    many = ctx.bool("many")
    allow = ctx.bool("allow_changes")
    effects = _run_convert(ctx, lambda M: M.convert(infn, outfn, many, i, o, allow))
    # on this path ``many`` has a definite truth value (the real code branched on it)
    exp_one = f_dump_one(f_load_one(infn.t, _s(i)), outfn.t, allow.t, _s(o))
    exp_many = f_dump_many(f_load_many(infn.t, _s(i)), outfn.t, allow.t, _s(o))
    if twin:
        exp_one = f_dump_one(f_load_one(infn.t, _s(i)), outfn.t, z3.BoolVal(False), _s(o))
        exp_many = f_dump_many(f_load_many(infn.t, _s(i)), outfn.t, z3.BoolVal(False), _s(o))
    ctx.oblige("exactly-one-dump-call", len(effects) == 1, cls=f"infmt={infmt},outfmt={outfmt}")
    if len(effects) != 1:
        return
    want = z3.If(many.t, exp_many, exp_one)
    ctx.oblige("effect-equals-API-composition", SymBool(effects[0] == want), cls=f"infmt={infmt},outfmt={outfmt}")


def _concrete(ctx, twin, cls, infmt, outfmt):
    """Replay: run convert() with recording stubs on concrete flags."""
    import iodata.__main__ as M
    many = ctx.bool("many")
    allow = ctx.bool("allow_changes")
    calls = []
    saved = {n: getattr(M, n) for n in ("load_one", "load_many", "dump_one", "dump_many")}
    M.load_one = lambda fn, *, fmt=None: ("load_one", fn, fmt)
    M.load_many = lambda fn, *, fmt=None: ("load_many", fn, fmt)
    M.dump_one = lambda d, fn, *, fmt=None, allow_changes=False: calls.append(("dump_one", d, fn, allow_changes, fmt))
    M.dump_many = lambda d, fn, *, fmt=None, allow_changes=False: calls.append(("dump_many", d, fn, allow_changes, fmt))
    try:
        M.convert("in.x", "out.y", many, "fi" if infmt else None, "fo" if outfmt else None, allow)
    finally:
        for n, v in saved.items():
            setattr(M, n, v)
    kind = "many" if many else "one"
    want = (f"dump_{kind}", (f"load_{kind}", "in.x", "fi" if infmt else None), "out.y", allow if not twin else False,
            "fo" if outfmt else None)
    ctx.oblige("exactly-one-dump-call", len(calls) == 1, cls=cls)
    ctx.oblige("effect-equals-API-composition", bool(calls) and calls[0] == want, cls=cls)


def h_main(ctx):
    """main(): every option subset / spelling / order ends in the same convert() composition."""
    import iodata.__main__ as M
    subset = ctx.choice(list(itertools.product([0, 1], repeat=4)), label="options(i,o,c,m)")
    long = ctx.choice([False, True], label="long-spelling")
    order = ctx.choice(["opts-first", "opts-last", "opts-between"], label="order")
    hi, ho, hc, hm = subset
    opts = []
    if hi:
        opts += ["--infmt" if long else "-i", "FMTIN"]
    if ho:
        opts += ["--outfmt" if long else "-o", "FMTOUT"]
    if hc:
        opts += ["--allow-changes" if long else "-c"]
    if hm:
        opts += ["--many" if long else "-m"]
    if order == "opts-first":
        argv = ["iodata-convert"] + opts + ["IN.a", "OUT.b"]
    elif order == "opts-last":
        argv = ["iodata-convert", "IN.a", "OUT.b"] + opts
    else:
        argv = ["iodata-convert", "IN.a"] + opts + ["OUT.b"]
    calls = []
    saved = {n: getattr(M, n) for n in ("load_one", "load_many", "dump_one", "dump_many")}
    M.load_one = lambda fn, *, fmt=None: ("load_one", fn, fmt)
    M.load_many = lambda fn, *, fmt=None: ("load_many", fn, fmt)
    M.dump_one = lambda d, fn, *, fmt=None, allow_changes=False: calls.append(("dump_one", d, fn, allow_changes, fmt))
    M.dump_many = lambda d, fn, *, fmt=None, allow_changes=False: calls.append(("dump_many", d, fn, allow_changes, fmt))
    old_argv = sys.argv
    import numpy as np
    old_err = np.geterr()
    sys.argv = argv
    try:
        M.main()
    finally:
        sys.argv = old_argv
        np.seterr(**old_err)
        for n, v in saved.items():
            setattr(M, n, v)
    kind = "many" if hm else "one"
    want = (f"dump_{kind}", (f"load_{kind}", "IN.a", "FMTIN" if hi else None), "OUT.b", bool(hc),
            "FMTOUT" if ho else None)
    ctx.oblige("main-equals-API-composition", len(calls) == 1 and calls[0] == want, cls=f"{subset},{long},{order}",
               detail=f"{calls} vs {want}")


def h_error_propagates(ctx):
    """An exception raised by the API escapes convert() unchanged; nothing is retried; convert() itself has no effect on
    the file system (the API is a recording stub here, so input and pre-existing output must be exactly as before)."""
    import os
    import shutil
    import tempfile
    import iodata.__main__ as M
    from iodata.utils import DumpError, FileFormatError, LoadError, PrepareDumpError
    which = ctx.choice(["load", "dump", "none"], label="failing-call")
    many = ctx.choice([False, True], label="many")
    kind = ctx.choice(["custom", "LoadError", "FileFormatError", "PrepareDumpError", "DumpError", "ValueError"], label="exception")
    existing = ctx.choice([True, False], label="output-exists")
    entry = ctx.choice(["convert", "main"], label="entry-point")

    class Boom(Exception):
        pass
    exc_type = {"custom": Boom, "LoadError": LoadError, "FileFormatError": FileFormatError, "PrepareDumpError": PrepareDumpError,
                "DumpError": DumpError, "ValueError": ValueError}[kind]
    tmp = tempfile.mkdtemp(prefix="symx-c18-")
    infn, outfn = os.path.join(tmp, "in.xyz"), os.path.join(tmp, "out.xyz")
    with open(infn, "w") as fh:
        fh.write("input content\n")
    if existing:
        with open(outfn, "w") as fh:
            fh.write("precious earlier output\n")

    def listing():
        return {n: open(os.path.join(tmp, n)).read() for n in sorted(os.listdir(tmp))}
    before = listing()
    ndump = []
    raised = []
    saved = {n: getattr(M, n) for n in ("load_one", "load_many", "dump_one", "dump_many")}

    def make():
        e = exc_type("boom") if exc_type in (Boom, ValueError) else exc_type("boom", outfn)
        raised.append(e)
        return e

    def load(fn, *, fmt=None):
        if which == "load":
            raise make()
        return "data"

    def dump(d, fn, *, fmt=None, allow_changes=False):
        ndump.append(1)
        if which == "dump":
            raise make()
    M.load_one = M.load_many = load
    M.dump_one = M.dump_many = dump
    escaped = None
    import sys
    import numpy as np
    old_argv, old_err = sys.argv, np.geterr()
    try:
        try:
            if entry == "convert":
                M.convert(infn, outfn, many)
            else:
                # the command-line entry: the error must end the run with a failure (exception or non-zero SystemExit),
                # not with a normal return
                sys.argv = ["iodata-convert", infn, outfn] + (["--many"] if many else [])
                M.main()
        except SystemExit as e:
            escaped = e if e.code not in (0, None) else None
        except Exception as e:      # noqa: BLE001
            escaped = e
        after = listing()
    finally:
        sys.argv = old_argv
        np.seterr(**old_err)
        for n, v in saved.items():
            setattr(M, n, v)
        shutil.rmtree(tmp, ignore_errors=True)
    cls = f"{which},{kind},many={many},existing={existing},{entry}"
    if which == "none":
        ctx.oblige("no-exception-without-api-error", escaped is None, cls=cls, detail=repr(escaped))
    else:
        ctx.oblige("api-error-escapes-convert", escaped is not None and (escaped is raised[0] or entry == "main"), cls=cls, detail=repr(escaped))
    ctx.oblige("no-dump-after-failed-load", (which != "load") or not ndump, cls=cls)
    ctx.oblige("exactly-one-dump-attempt", which == "load" or len(ndump) == 1, cls=cls)
    ctx.oblige("convert-has-no-file-system-effect-of-its-own", after == before, cls=cls,
               detail=f"before={sorted(before)} after={sorted(after)}")


def jobs(tier):
    M = "harness.c18"
    out = []
    for i in (False, True):
        for o in (False, True):
            out.append(job("C18", f"convert[infmt={int(i)},outfmt={int(o)}]", M, "h_convert", dict(infmt=i, outfmt=o)))
    out.append(job("C18", "convert[twin]", M, "h_convert", dict(twin=True), expect="cex", validate=False))
    out.append(job("C18", "main-options", M, "h_main", {}, max_validate=96))
    out.append(job("C18", "error-propagates", M, "h_error_propagates", {}, max_validate=288))
    return out
