"""C19 - generated QC input files describe the molecule they were generated from."""

from __future__ import annotations

import numpy as np

from specs.periodic_ref import ANGSTROM, NUM2SYM
from symx import core, tokens
from symx.core import And, Not, Or, Sym, sym_abs
from symx.runner import job
from symx.stubs import stubbed

META = dict(
    bounds=dict(
        quick="programs gaussian/orca (+unknown); 1, 2 and 40 atoms (two symbolic probe atoms, concrete filler) with "
              "elements from {1, 2, 10, 11, 54, 99, 100, 118} (one job per program with every element 1..118); all real coordinates that fit the 10.6f column, and (jobs wide-coordinates, one atom) "
              "coordinates in (-1e4, 1e5) angstrom that make the printed field one or two characters wider; all "
              "real charge in [-20, 20] and spin polarisation in [-8, 8] (set, absent, or derived from restricted "
              "orbitals with symbolic occupations); every run type incl. None and upper case; default template and 3 user "
              "templates using subsets of the fields; custom atom_line callback; keyword fields overriding defaults; "
              "templates with an unknown field, attribute access on a field, a bad format spec and a bad index; an atom_line "
              "callback raising one of six exception types",
        thorough="as quick with 200 atoms"),
    outside=["coordinates beyond (-1e4, 1e5) angstrom", "digit-level rounding of the printed coordinates"],
    assumptions=["str.format on symbolic numbers yields placeholder tokens (symx.tokens)", "int/abs/np.round modelled on "
                 "terms (truncation, absolute value, round-half-even)", "exact real arithmetic",
                 "nearest integer: either neighbour accepted at exact ties"],
    explanation="symbolic execution of api.write_input -> inputs.{gaussian,orca}.write_input -> write_input_base",
)

GAUSSIAN_KEYWORDS = {"energy": "sp", "energy_force": "force", "opt": "opt", "scan": "scan", "freq": "freq"}
ORCA_KEYWORDS = {"energy": "Energy", "freq": "Freq", "opt": "Opt"}
DEFAULTS = {"gaussian": ("hf", "sto-3g"), "orca": ("HF", "STO-3G")}

TEMPLATES = {
    "default": None,
    "t1": "CHG={charge} MULT={spinmult}\nGEOM\n{geometry}\nEND lot={lot} basis={obasis_name} rt={run_type} title={title}",
    "t2": "{geometry}\n--\n{charge}",
    "t3": "method {lot}\nmult {spinmult}\n{geometry}\nextra {myfield}",
    "bad": "{charge} {nonexistent_field}\n{geometry}",
    "bad-attr": "{charge} {title.nosuchattribute}\n{geometry}",
    "bad-spec": "{charge:qq}\n{geometry}",
    "bad-index": "{lot[99]}\n{geometry}",
}


def _num(text, kind, ctx):
    if ctx.mode == "sym" and tokens.has_token(text):
        return tokens.parse_number(text, kind)
    return int(text) if kind == "int" else float(text)


def _nearest_int_ok(ctx, got, x):
    """got is an integer nearest to x."""
    if ctx.mode == "conc":
        return abs(got - x) <= 0.5 + 1e-12 and float(got) == int(got)
    return And(got - x <= 0.5, x - got <= 0.5)


def _parse(program, tname, text, natom):
    """Independent, template-driven parse. Returns dict with charge, mult, geometry lines, head fields."""
    lines = text.split("\n")
    out = {}
    if tname == "default":
        if program == "gaussian":
            # "#n lot/basis run", "", title, "", "charge mult", geometry..., "", ""
            head = lines[0]
            assert head.startswith("#n ")
            lb, run = head[3:].rsplit(" ", 1)
            out["lot"], out["obasis_name"] = lb.split("/", 1)
            out["run_type"] = run
            out["title"] = lines[2]
            out["charge"], out["mult"] = lines[4].split()
            out["geom"] = lines[5:5 + natom]
            out["after"] = lines[5 + natom:]
        else:
            head = lines[0]
            assert head.startswith("! ")
            out["lot"], out["obasis_name"], out["run_type"] = head[2:].split(" ")
            assert lines[1].startswith("# ")
            out["title"] = lines[1][2:]
            w = lines[2].split()
            assert w[0] == "*xyz"
            out["charge"], out["mult"] = w[1], w[2]
            out["geom"] = lines[3:3 + natom]
            out["after"] = lines[3 + natom:]
    elif tname == "t1":
        a, b = lines[0].split()
        out["charge"], out["mult"] = a[4:], b[5:]
        assert lines[1] == "GEOM"
        out["geom"] = lines[2:2 + natom]
        tail = lines[2 + natom]
        assert tail.startswith("END lot=")
        rest = tail[len("END lot="):]
        out["lot"], rest = rest.split(" basis=", 1)
        out["obasis_name"], rest = rest.split(" rt=", 1)
        out["run_type"], out["title"] = rest.split(" title=", 1)
        out["after"] = lines[3 + natom:]
    elif tname == "t2":
        out["geom"] = lines[0:natom]
        assert lines[natom] == "--"
        out["charge"] = lines[natom + 1]
        out["after"] = lines[natom + 2:]
    elif tname == "t3":
        out["lot"] = lines[0][len("method "):]
        out["mult"] = lines[1][len("mult "):]
        out["geom"] = lines[2:2 + natom]
        out["myfield"] = lines[2 + natom][len("extra "):]
        out["after"] = lines[3 + natom:]
    return out


def h_write_input(ctx, program="gaussian", natom=2, tname="default", chg="set", spin="set", custom_atom_line=False,
                  twin=False, wide=False, zall=False):
    import iodata.api as api
    import iodata.inputs.common as common
    import iodata.inputs.gaussian as gmod
    import iodata.inputs.orca as omod
    import iodata.iodata as I
    import iodata.orbitals as O
    import iodata.attrutils as A
    from iodata.utils import FileFormatError, WriteInputError
    zmenu = [1, 10, 118] if wide else ([1, 2, 10, 11, 54, 99, 100, 118] if not zall else list(range(1, 119)))
    if wide:
        # coordinates wider than the default column: the fields grow (Python formatting) and must stay separated
        ctx.scratch["width_policy"] = "over"
        ctx.scratch["full_budget"] = 3
    with stubbed(api, common, gmod, omod, I, O, A):
        # molecule: probe atoms symbolic, filler concrete
        probes = sorted({0, natom - 1})
        atnums = np.array([6] * natom)
        coords = np.zeros((natom, 3), dtype=object if ctx.mode == "sym" else float)
        for i in range(natom):
            coords[i] = [0.1 * i, -0.2 * i, 0.05 * i]
        zsel = ctx.choice(list(range(len(zmenu))), label="Z")
        for n, p in enumerate(probes):
            atnums[p] = zmenu[(zsel + 3 * n) % len(zmenu)]
            for k in range(3):
                coords[p, k] = ctx.real(f"x{p}_{k}", lo=-18000, hi=180000) if wide else ctx.real(f"x{p}_{k}", lo=-150, hi=150)
        kw = dict(atnums=atnums, atcoords=coords)
        charge = spinpol = None
        mo = None
        if chg == "set":
            charge = ctx.real("charge", lo=-20, hi=20)
            kw["charge"] = charge
        if spin == "set":
            spinpol = ctx.real("spinpol", lo=-8, hi=8)
            kw["spinpol"] = spinpol
        if chg == "mo":
            occ = ctx.real_array("occ", (2,), lo=0, hi=2)
            mo = O.MolecularOrbitals("restricted", 2, 2, occ)
            kw["mo"] = mo
        if chg == "ecp":
            # effective core charges differ from the atomic numbers (pseudo-potential / ghost centre)
            core_q = np.array([float(z) for z in atnums], dtype=object if ctx.mode == "sym" else float)
            core_q[probes[0]] = ctx.real("qcore", lo=0, hi=30, default=7.0)
            kw["atcorenums"] = core_q
            kw["nelec"] = ctx.real("nelec", lo=0, hi=60, default=8.0)
        run_type = ctx.choice([None, "opt"] if wide else ["freq"] if zall else [None, "energy", "energy_force", "opt", "scan", "freq", "OPT", "Freq"],
                              label="run_type")
        lot, title = ctx.choice([(None, None), ("B3LYP", "my title here")], label="lot,title")
        kw["run_type"] = run_type
        kw["lot"] = lot
        kw["title"] = title
        data = I.IOData(**kw)
        exp_charge = data.charge      # via the (C11-checked) properties: sum(core) - nelec, or the set value
        exp_spinpol = data.spinpol
        template = TEMPLATES[tname]
        user = {}
        if tname == "t3":
            user["myfield"] = "hello"
            user["lot"] = "MP2"         # keyword argument overrides the object's / default value
        if tname in ("t1", "default") and chg == "set" and natom == 2 and not custom_atom_line and not wide:
            # keyword arguments take precedence over what is derived from the object, field by field
            ov = ctx.choice(["none", "charge", "spinmult", "title"], label="user-override")
            if ov == "charge":
                user["charge"] = 7
            elif ov == "spinmult":
                user["spinmult"] = 6
            elif ov == "title":
                user["title"] = "title given as keyword"

        fail_kind = None
        if custom_atom_line == "raises":
            fail_kind = ctx.choice(["ZeroDivisionError", "RuntimeError", "AttributeError", "KeyError", "OSError", "AssertionError"],
                                   label="callback-exception")

        def my_atom_line(d, i):
            if fail_kind is not None and i == natom - 1:
                raise {"ZeroDivisionError": ZeroDivisionError, "RuntimeError": RuntimeError, "AttributeError": AttributeError,
                       "KeyError": KeyError, "OSError": OSError, "AssertionError": AssertionError}[fail_kind]("callback failed")
            return f"ATOM{i} {d.atnums[i]} {d.atcoords[i, 0]:12.8f}"
        path = ctx.tmp_path("input.in")
        err = None
        try:
            api.write_input(data, path, fmt=program, template=template,
                            atom_line=my_atom_line if custom_atom_line else None, **user)
        except Exception as e:      # noqa: BLE001 - the type of the exception is what the obligations below are about
            err = e
        keywords = GAUSSIAN_KEYWORDS if program == "gaussian" else ORCA_KEYWORDS
        rt_key = (run_type or "energy").lower()
        cls = f"{program},{tname}"
        if program not in ("gaussian", "orca"):
            ctx.oblige("unknown-program-raises-FileFormatError", isinstance(err, FileFormatError), cls=cls)
            return
        if tname.startswith("bad") or rt_key not in keywords or fail_kind is not None:
            ctx.oblige("render-failure-raises-WriteInputError", isinstance(err, WriteInputError), cls=cls + (f",{fail_kind}" if fail_kind else ""),
                       detail=repr(err))
            return
        ctx.oblige("valid-input-is-written", err is None, cls=cls, detail=str(err))
        if err is not None:
            return
        text = ctx.read_text(path)
        parsed = _parse(program, tname, text, natom)
        # --- geometry: one line per atom, in order
        ctx.oblige("one-geometry-line-per-atom", len(parsed["geom"]) == natom and
                   all(l.strip() == "" or l.strip() in ("*", "--") or l.startswith(("END", "extra")) for l in parsed["after"][:1]),
                   cls=cls)
        for i in range(min(natom, len(parsed["geom"]))):      # every atom: the concrete filler atoms pin down the order
            line = parsed["geom"][i]
            if custom_atom_line:
                w = line.split()
                ctx.oblige("custom-atom-line-used", w[0] == f"ATOM{i}" and w[1] == str(atnums[i]) and
                           ctx.eq(_num(w[2], "float", ctx), coords[i, 0], atol=1e-8), cls=cls)
                continue
            ctx.oblige("atom-symbol", line[:3].strip() == NUM2SYM[int(atnums[i])] and line[3] == " ", cls=cls,
                       detail=f"Z={atnums[i]} line={line[:4]!r}")
            w = line[4:].split()
            ctx.oblige("three-coordinates", len(w) == 3, cls=cls, detail=repr(line) if ctx.mode == "conc" else "")
            if len(w) != 3 or line[3] != " ":
                continue
            for k in range(3):
                got = _num(w[k], "float", ctx)
                want = coords[i, k] / ANGSTROM + (1.0 if twin and k == 0 else 0.0)
                if ctx.mode == "conc":
                    ok = abs(got - want) <= 6e-7 + 1e-9 * abs(want)
                else:
                    ok = ctx.close(got * ANGSTROM, want * ANGSTROM, 1e-7) if isinstance(got, Sym) else \
                        abs(got - float(want)) < 1e-6
                ctx.oblige("coordinate-in-angstrom", ok, cls=cls)
        # --- charge and multiplicity
        if "charge" in parsed:
            got = _num(parsed["charge"], "int", ctx)
            if "charge" in user:
                ctx.oblige("user-field-overrides-charge", got == 7, cls=cls)
            elif exp_charge is None:
                ctx.oblige("charge-defaults-to-0", got == 0, cls=cls)
            else:
                ctx.oblige("charge-rounded-to-nearest-integer", _nearest_int_ok(ctx, got, exp_charge),
                           cls=f"{cls},charge={chg}")
        if "mult" in parsed:
            got = _num(parsed["mult"], "int", ctx)
            if "spinmult" in user:
                ctx.oblige("user-field-overrides-multiplicity", got == 6, cls=cls)
            elif exp_spinpol is None:
                ctx.oblige("multiplicity-defaults-to-1", got == 1, cls=cls)
            else:
                a = sym_abs(exp_spinpol) if ctx.mode == "sym" else abs(exp_spinpol)
                ctx.oblige("multiplicity-is-rounded-spinpol+1", _nearest_int_ok(ctx, got - 1, a), cls=f"{cls},spin={spin}")
        # --- level of theory, basis, run type, title
        if "lot" in parsed:
            want = user.get("lot", lot or DEFAULTS[program][0])
            ctx.oblige("level-of-theory", parsed["lot"] == want, cls=cls, detail=f"{parsed['lot']!r} vs {want!r}")
        if "obasis_name" in parsed:
            ctx.oblige("basis-default", parsed["obasis_name"] == DEFAULTS[program][1], cls=cls)
        if "run_type" in parsed:
            ctx.oblige("run-type-keyword", parsed["run_type"] == keywords[rt_key], cls=cls)
        if "title" in parsed:
            ctx.oblige("title", parsed["title"] == user.get("title", title or "Input Generated by IOData"), cls=cls)
        if "myfield" in parsed:
            ctx.oblige("extra-keyword-field", parsed["myfield"] == "hello", cls=cls)


def jobs(tier):
    M = "harness.c19"
    out = []
    big = 200 if tier == "thorough" else 40
    for program in ("gaussian", "orca"):
        for tname in ("default", "t1", "t2", "t3", "bad", "bad-attr", "bad-spec", "bad-index"):
            for chg, spin in (("set", "set"), ("none", "none"), ("mo", "mo"), ("ecp", "set")):
                if (tname in ("t2", "t3") or tname.startswith("bad")) and chg != "set":
                    continue
                for natom in (1, 2):
                    if natom == 1 and tname != "default":
                        continue
                    out.append(job("C19", f"write_input[{program},{tname},chg={chg},n={natom}]", M, "h_write_input",
                                   dict(program=program, natom=natom, tname=tname, chg=chg, spin=spin),
                                   budget_s=300, max_validate=8))
        out.append(job("C19", f"write_input[{program},default,n={big}]", M, "h_write_input",
                       dict(program=program, natom=big, tname="default"), budget_s=600, max_validate=3))
        out.append(job("C19", f"write_input[{program},custom-atom-line]", M, "h_write_input",
                       dict(program=program, natom=2, tname="default", custom_atom_line=True), max_validate=5))
        out.append(job("C19", f"write_input[{program},failing-atom-line]", M, "h_write_input",
                       dict(program=program, natom=2, tname="default", custom_atom_line="raises"), max_validate=12))
        out.append(job("C19", f"write_input[{program},every-element]", M, "h_write_input",
                       dict(program=program, natom=1, tname="default", zall=True), budget_s=300, max_validate=6))
        out.append(job("C19", f"write_input[{program},wide-coordinates]", M, "h_write_input",
                       dict(program=program, natom=1, tname="default", wide=True), budget_s=300, max_validate=6))
    out.append(job("C19", "write_input[unknown-program]", M, "h_write_input", dict(program="nwchem", natom=1),
                   max_validate=3))
    out.append(job("C19", "write_input[twin]", M, "h_write_input", dict(program="orca", natom=1, twin=True),
                   expect="cex", max_validate=0))
    return out
