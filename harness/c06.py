"""C06 - overlap matrices are the exact inner products of the documented functions."""

from __future__ import annotations

import math
from fractions import Fraction

import numpy as np

from specs import harmonics_ref as HR
from specs.basisfun import dfact
from symx import core
from symx.core import And, Not, Or, Sym
from symx.runner import job
from symx.stubs import stubbed

META = dict(
    bounds=dict(
        quick="A: 1-D kernel for all n1,n2 <= 7, all real x1, x2, two_at != 0 (identity with the Obara-Saika recurrence "
              "decided by polynomial normalisation); B: primitive normalisation for every Cartesian power triple with "
              "l <= 7 and all real exponents > 0; C: Cartesian-to-pure tables l <= 7 against exact algebraic values "
              "(4 ulp); D1: real compute_overlap on one centre, one one-primitive shell l <= 2 (Cartesian) / l = 2 (pure) with "
              "a symbolic exponent: unit diagonal, symmetry, pure shell orthonormal; D1b: two shells of different type on one "
              "centre at any position (symbolic coordinates; exponents 0.8 / 1.7), single-basis and two-basis form: every "
              "element of the block against the closed formula, pairs s|d, p|f, 5d|6d, 5d|15g, 6d|9g, 5d|9g, 7f|21h, 7f|10f "
              "(thorough up to l = 7); D2: two centres with symbolic "
              "coordinates (s/p shells, rational exponents, symbolic contraction coefficients, exp as an uninterpreted "
              "function): symmetry, the same basis object at two geometries equals an equal copy, transposition under exchange of the bases, invariance under a common translation, "
              "row/column permutation under a change of conventions, zero block exactly when screened; rejection of L1 "
              "normalisation and of a missing / superfluous second geometry",
        thorough="B for l <= 9, D1 for l <= 3, D2 with d shells and generalized contractions"),
    outside=["positive semidefiniteness as a separate obligation (implied by the Gram form)", "floating-point accuracy "
             "of the final numbers", "symbolic exponents together with symbolic distances (exp of products)",
             "screening threshold semantics beyond the branch actually taken"],
    assumptions=["exact real arithmetic; sqrt/half-integer powers as auxiliary reals y>=0, y*y=e; exp as an uninterpreted "
                 "function with positivity and monotonicity instances", "division by a declared non-zero variable is "
                 "multiplication by its reciprocal variable (w*t=1)"],
    explanation="symbolic execution of iodata.overlap kernels and compute_overlap with z3",
)


def h_kernel(ctx, n1=2, n2=2, twin=False):
    import iodata.overlap as OV
    x1, x2 = ctx.real("x1", default=0.3), ctx.real("x2", default=-0.7)
    t = ctx.real("two_at", default=1.5)
    ctx.assume(t > 0)
    w = ctx.declare_reciprocal(t, "w")
    go = OV.GaussianOverlap(max(n1, n2, 1))
    v = go.compute_overlap_gaussian_1d(x1, x2, n1, n2, t)
    # Obara-Saika recurrence for the 1-D moment integral (independent oracle)
    S = {(0, 0): 1.0}
    for i in range(n1 + 1):
        for j in range(n2 + 1):
            if (i, j) == (0, 0):
                continue
            if i > 0:
                S[i, j] = x1 * S[i - 1, j] + w * ((i - 1) * S.get((i - 2, j), 0.0) + j * S.get((i - 1, j - 1), 0.0))
            else:
                S[i, j] = x2 * S[i, j - 1] + w * (i * S.get((i - 1, j - 1), 0.0) + (j - 1) * S.get((i, j - 2), 0.0))
    ref = S[n1, n2] + (1.0 if twin else 0.0)
    ctx.oblige("kernel-equals-gaussian-moment", ctx.eq(v, ref, rtol=1e-9, atol=1e-12), cls=f"{n1},{n2}")


def h_norm(ctx, l=2, twin=False):
    import iodata.overlap as OV
    a = ctx.real("alpha", lo=1e-3, hi=1e6, default=1.3)
    w = ctx.declare_reciprocal(a, "inv_alpha")
    which = ctx.choice([(nx, ny, l - nx - ny) for nx in range(l, -1, -1) for ny in range(l - nx, -1, -1)], label="powers")
    n = np.array(which)
    with stubbed(OV):
        N = OV.gob_cart_normalization(a, n)
    # independent: integral of (x^nx y^ny z^nz)^2 exp(-2 a r^2)
    c = dfact(2 * which[0] - 1) * dfact(2 * which[1] - 1) * dfact(2 * which[2] - 1)
    if ctx.mode == "conc":
        integral = c / (4 * a) ** l * (math.pi / (2 * a)) ** 1.5
        ctx.oblige("normalisation-nonnegative", N >= 0, cls=str(which))
        ctx.oblige("primitive-is-L2-normalised", abs(N * N * integral - (2.0 if twin else 1.0)) < 1e-10, cls=str(which))
        return
    # (pi/(2a))^(3/2) = 1/y^3 with y = sqrt(2a/pi): the same auxiliary the code's power 1.5 introduced
    nsq = len(ctx._sqrt)
    y = core.sym_sqrt(2 * a / math.pi)
    ctx.oblige("oracle-shares-the-sqrt-auxiliary", len(ctx._sqrt) == nsq, cls=str(which))
    yinv = ctx.declare_reciprocal(y, "inv_y")
    integral = c * (w / 4) ** l * yinv ** 3
    ctx.oblige("normalisation-nonnegative", N >= 0, cls=str(which))
    ctx.oblige("primitive-is-L2-normalised", ctx.eq(N * N * integral, 2.0 if twin else 1.0), cls=str(which),
               timeout_ms=60000)


def h_tables(ctx, l=2):
    """Cartesian-to-pure table l against the exact algebraic values (ground, rational arithmetic)."""
    from iodata.overlap_cartpure import tfs
    tf = tfs[l]
    labels = ["c0"] + [f"{cs}{m}" for m in range(1, l + 1) for cs in "cs"]
    carts = [(nx, ny, l - nx - ny) for nx in range(l, -1, -1) for ny in range(l - nx, -1, -1)]
    ctx.oblige("table-shape", tf.shape == (len(labels), len(carts)), cls=f"l={l}")
    bad = []
    for i, lab in enumerate(labels):
        for j, p in enumerate(carts):
            s, v2 = HR.cart_to_pure_entry_sq(l, lab, p)
            t = Fraction(float(tf[i, j]))
            if v2 == 0:
                ok = t == 0
            else:
                e = abs(t) * Fraction(1, 2 ** 50)      # 4 ulp-ish relative band
                ok = (t > 0) == (s > 0) and (abs(t) - e) ** 2 <= v2 <= (abs(t) + e) ** 2
            if not ok:
                bad.append((lab, p, float(t)))
    ctx.oblige("table-entries-are-the-exact-harmonic-coefficients", not bad, cls=f"l={l}", detail=str(bad[:4]))
    # orthonormality T S_cart T^T = I follows; check it exactly in rational arithmetic on the exact values:
    # S_cart(p,q) between normalised Cartesian functions of one shell = prod (p_d+q_d-1)!! / sqrt(...)


def h_single_center(ctx, l=1, kind="c", twin=False):
    """Real compute_overlap, one centre, one primitive with symbolic exponent."""
    import iodata.attrutils as A
    import iodata.basis as B
    import iodata.convert as C
    import iodata.overlap as OV
    a = ctx.real("alpha", lo=1e-2, hi=1e5, default=0.8)
    ctx.declare_reciprocal(a, "inv_alpha")
    with stubbed(OV, C, B, A):
        sh = B.Shell(0, [l], [kind], [a], [[1.0]])
        ob = B.MolecularBasis([sh], C.HORTON2_CONVENTIONS, "L2")
        olp = OV.compute_overlap(ob, np.zeros((1, 3)))
    n = olp.shape[0]
    ctx.oblige("shape", olp.shape == ((l + 1) * (l + 2) // 2 if kind == "c" else 2 * l + 1,) * 2, cls=f"{l}{kind}")
    diag = And(*[ctx.near(olp[i, i], 2.0 if twin else 1.0, 1e-9) for i in range(n)])
    ctx.oblige("normalised-diagonal", diag, cls=f"{l}{kind}", timeout_ms=60000)
    ctx.oblige("symmetric", And(*[ctx.near(olp[i, j], olp[j, i], 1e-12) for i in range(n) for j in range(i)] or [True]),
               cls=f"{l}{kind}")
    if kind == "p":
        ctx.oblige("pure-shell-orthonormal",
                   And(*[ctx.near(olp[i, j], 0.0, 1e-9) for i in range(n) for j in range(n) if i != j]),
                   cls=f"{l}{kind}", timeout_ms=60000)
    else:
        # off-diagonal of a Cartesian shell: <p|q> = prod_d (p_d+q_d-1)!! / sqrt(prod (2p_d-1)!! (2q_d-1)!!) for even sums
        carts = [(nx, ny, l - nx - ny) for nx in range(l, -1, -1) for ny in range(l - nx, -1, -1)]
        parts = []
        for i, p in enumerate(carts):
            for j, q in enumerate(carts):
                if i == j:
                    continue
                if any((pd + qd) % 2 for pd, qd in zip(p, q)):
                    ref = 0.0
                else:
                    num = math.prod(dfact(pd + qd - 1) for pd, qd in zip(p, q))
                    den = math.sqrt(math.prod(dfact(2 * pd - 1) * dfact(2 * qd - 1) for pd, qd in zip(p, q)))
                    ref = num / den
                if ctx.mode == "conc":
                    parts.append(abs(olp[i, j] - ref) < 1e-9)
                else:
                    parts.append(ctx.near(olp[i, j], ref, 1e-9))
        ctx.oblige("cartesian-off-diagonal", And(*parts) if parts else True, cls=f"{l}{kind}", timeout_ms=60000)


def _two_center_basis(ctx, B, C, tag, shells_spec, conv):
    shells = []
    for k, (ic, ls, kinds, exps) in enumerate(shells_spec):
        co = ctx.real_array(f"{tag}d{k}", (len(exps), len(ls)), lo=-2, hi=2)
        shells.append(B.Shell(ic, ls, kinds, exps, co))
    return B.MolecularBasis(shells, conv, "L2")


SPEC_SMALL = [(0, [0], ["c"], [0.5, 2.0]), (1, [1], ["c"], [1.25])]
SPEC_GEN = [(0, [0, 1], ["c", "c"], [0.5]), (1, [2], ["p"], [0.75])]
SPEC_TINY = [(0, [0], ["c"], [0.5]), (1, [1], ["c"], [1.25])]


def h_two_center(ctx, spec="small", prop="symmetric", twin=False):
    import iodata.attrutils as A
    import iodata.basis as B
    import iodata.convert as C
    import iodata.overlap as OV
    sp = {"small": SPEC_SMALL, "gen": SPEC_GEN, "tiny": SPEC_TINY}[spec]
    with stubbed(OV, C, B, A):
        r = ctx.real_array("r", (2, 3), lo=-3, hi=3)
        ob = _two_center_basis(ctx, B, C, "a", sp, C.HORTON2_CONVENTIONS)
        if prop == "same-object":
            # the same basis object at two different geometries: nothing may be inferred from the identity of the objects
            # (two fixed geometries; the contraction coefficients are the symbolic part: the matrix elements are bilinear forms
            # in them with concrete integrals, which the solver decides quickly in both directions)
            r = np.array([[0.0, 0.0, 0.0], [0.9, -0.4, 1.1]])
            r2 = np.array([[0.3, 0.2, -0.5], [-0.7, 1.0, 0.6]])
            ob_copy = B.MolecularBasis([B.Shell(sh.icenter, sh.angmoms, sh.kinds, sh.exponents, sh.coeffs) for sh in ob.shells],
                                       ob.conventions, ob.primitive_normalization)
            o_same = OV.compute_overlap(ob, r, ob, r2)
            o_copy = OV.compute_overlap(ob, r, ob_copy, r2)
            ctx.oblige("same-object-at-two-geometries-equals-equal-copy", ctx.eq(o_same, o_copy, atol=1e-12), cls=spec)
        elif prop == "symmetric":
            olp = OV.compute_overlap(ob, r)
            n = olp.shape[0]
            ctx.oblige("symmetric", And(*[ctx.eq(olp[i, j], olp[j, i] + (1.0 if twin and (i, j) == (1, 0) else 0.0), atol=1e-12)
                                          for i in range(n) for j in range(i)]), cls=spec)
            # the two-basis call with the same basis gives the same matrix
            olp2 = OV.compute_overlap(ob, r, ob, r)
            ctx.oblige("two-basis-call-with-identical-bases-agrees", ctx.eq(olp2, olp, atol=1e-12), cls=spec)
        elif prop == "transpose":
            sp2 = list(reversed(sp))
            ob2 = _two_center_basis(ctx, B, C, "b", sp2, C.HORTON2_CONVENTIONS)
            r2 = ctx.real_array("q", (2, 3), lo=-3, hi=3)
            o12 = OV.compute_overlap(ob, r, ob2, r2)
            o21 = OV.compute_overlap(ob2, r2, ob, r)
            ctx.oblige("exchange-transposes", ctx.eq(o12, o21.T, atol=1e-12), cls=spec)
        elif prop == "translate":
            d = ctx.real_array("shift", (3,), lo=-5, hi=5)
            o1 = OV.compute_overlap(ob, r)
            o2 = OV.compute_overlap(ob, r + d)
            ctx.oblige("translation-invariant", ctx.eq(o1, o2, atol=1e-10), cls=spec)
        elif prop == "conventions":
            o1 = OV.compute_overlap(ob, r)
            conv2 = dict(C.HORTON2_CONVENTIONS)
            conv2[(1, "c")] = ["-z", "x", "-y"]
            conv2[(2, "p")] = ["s2", "-c0", "c1", "s1", "-c2"]
            ob2 = B.MolecularBasis(ob.shells, conv2, "L2")
            o2 = OV.compute_overlap(ob2, r)
            # independent signed permutation from the labels
            perm, sgn = [], []
            off = 0
            for sh in ob.shells:
                for l, k in zip(sh.angmoms, sh.kinds):
                    c1, c2 = C.HORTON2_CONVENTIONS[(int(l), str(k))], conv2[(int(l), str(k))]
                    for lab in c2:
                        perm.append(off + c1.index(lab.lstrip("-")))
                        sgn.append(-1.0 if lab.startswith("-") else 1.0)
                    off += len(c1)
            n = len(perm)
            exp = [[o1[perm[i], perm[j]] * sgn[i] * sgn[j] for j in range(n)] for i in range(n)]
            ctx.oblige("conventions-permute-and-sign-rows-and-columns", ctx.eq(o2, np.array(exp, dtype=object if ctx.mode == "sym" else float), atol=1e-12), cls=spec)


def _os_1d(x1, x2, n1, n2, w):
    """Obara-Saika 1-D moment (normalised by sqrt(pi/(a+b))) with w = 1/(2(a+b))."""
    S = {(0, 0): 1.0}
    for i in range(n1 + 1):
        for j in range(n2 + 1):
            if (i, j) == (0, 0):
                continue
            if i > 0:
                S[i, j] = x1 * S[i - 1, j] + w * ((i - 1) * S.get((i - 2, j), 0.0) + j * S.get((i - 1, j - 1), 0.0))
            else:
                S[i, j] = x2 * S[i, j - 1] + w * (i * S.get((i - 1, j - 1), 0.0) + (j - 1) * S.get((i, j - 2), 0.0))
    return S[n1, n2]


def _cart_powers(l):
    return [(nx, ny, l - nx - ny) for nx in range(l, -1, -1) for ny in range(l - nx, -1, -1)]


def h_two_center_values(ctx, spec="small", twin=False):
    """Real compute_overlap against an independent assembly (Obara-Saika, documented normalisation, exp as the
    same uninterpreted function); contributions may be dropped only where the path condition implies that their
    exponential prefactor is below the 1e-15 screening threshold."""
    import z3
    import iodata.attrutils as A
    import iodata.basis as B
    import iodata.convert as C
    import iodata.overlap as OV
    from specs.basisfun import cart_norm
    sp = SPEC_SMALL if spec == "small" else SPEC_GEN
    if any("p" in ks for (_ic, _ls, ks, _e) in sp):
        raise core.PathAbort("value oracle implemented for Cartesian shells")
    with stubbed(OV, C, B, A):
        r = ctx.real_array("r", (2, 3), lo=-8, hi=8)
        ob = _two_center_basis(ctx, B, C, "a", sp, C.HORTON2_CONVENTIONS)
        # contraction coefficients bounded away from zero: a dropped contribution is then numerically visible
        for sh in ob.shells:
            for dco in sh.coeffs.ravel().tolist():
                ctx.assume(dco >= 0.5)
        olp = OV.compute_overlap(ob, r)
    # basis functions of the (segmented) basis in HORTON2 order: list of (centre, l, powers, [(alpha, D)])
    funcs = []
    for sh in ob.shells:
        for c, l in enumerate(sh.angmoms):
            for pw in _cart_powers(int(l)):
                funcs.append((int(sh.icenter), int(l), pw, [(float(a), sh.coeffs[k, c]) for k, a in enumerate(sh.exponents)]))
    n = len(funcs)
    ctx.oblige("shape", olp.shape == (n, n), cls=spec)
    sym = ctx.mode == "sym"
    for i in range(n):
        for j in range(i + 1):
            ci, li, pi_, prims_i = funcs[i]
            cj, lj, pj, prims_j = funcs[j]
            A_, B_ = r[ci], r[cj]
            dist2 = sum((A_[d] - B_[d]) * (A_[d] - B_[d]) for d in range(3))
            total = 0.0
            for (a, da) in prims_i:
                for (b, db) in prims_j:
                    at = a + b
                    arg = dist2 * (-a * b / at)
                    if sym:
                        e = core.sym_exp(arg) if isinstance(arg, Sym) else math.exp(arg)
                        if isinstance(e, Sym):
                            # may this pair be dropped?  only if the path condition implies e < 1e-15
                            if ctx._check(z3.Not(e.t <= core._realval(1e-15)), timeout=5000) == "unsat":
                                continue
                    else:
                        e = math.exp(arg)
                    w = 1.0 / (2 * at)
                    contrib = da * db * cart_norm(a, pi_) * cart_norm(b, pj) * (math.pi / at) ** 1.5 * e
                    for d in range(3):
                        P = (a * A_[d] + b * B_[d]) / at
                        contrib = contrib * _os_1d(P - A_[d], P - B_[d], pi_[d], pj[d], w)
                    total = total + contrib
            if twin and (i, j) == (n - 1, 0):
                total = total + 1.0
            if sym:
                ok = ctx.approx(olp[i, j], total, 1e-7, atol=1e-13)
                if ok is not True and ok is not False:
                    # a counterexample must differ visibly (the exponential is an uninterpreted function)
                    ok = ctx.near(olp[i, j], total, 1e-9)
            else:
                ok = abs(float(olp[i, j]) - float(total)) <= 1e-11 + 1e-8 * abs(float(total))
            ctx.oblige("overlap-entry-is-the-exact-inner-product", ok, cls=f"{spec},l=({li},{lj})", detail=f"entry ({i},{j})",
                       timeout_ms=30000)


def h_reject(ctx):
    import iodata.basis as B
    import iodata.convert as C
    import iodata.overlap as OV
    sh = B.Shell(0, [0], ["c"], [1.0], [[1.0]])
    l1 = B.MolecularBasis([sh], C.HORTON2_CONVENTIONS, "L1")
    l2 = B.MolecularBasis([sh], C.HORTON2_CONVENTIONS, "L2")
    r = np.zeros((1, 3))
    case = ctx.choice(["L1-first", "L1-second", "missing-second-geometry", "superfluous-second-geometry"])
    try:
        if case == "L1-first":
            OV.compute_overlap(l1, r)
        elif case == "L1-second":
            OV.compute_overlap(l2, r, l1, r)
        elif case == "missing-second-geometry":
            OV.compute_overlap(l2, r, l2)
        else:
            OV.compute_overlap(l2, r, None, r)
        rejected = False
    except (ValueError, TypeError):
        rejected = True
    ctx.oblige("unsupported-input-rejected", rejected, cls=case)


def _ref_block(l1, k1, a, l2, k2, b):
    """<f_i|g_j> for two normalised one-primitive shells (exponents a, b) on one centre, from the closed formulas:
    int x^n exp(-(a+b) x^2) dx = (n-1)!! / (2(a+b))^(n/2) sqrt(pi/(a+b)) for even n; N = (2a/pi)^(3/4) sqrt((4a)^l / prod (2n_d-1)!!)."""
    def carts(l):
        return [(nx, ny, l - nx - ny) for nx in range(l, -1, -1) for ny in range(l - nx, -1, -1)]

    def norm(alpha, pw):
        return (2 * alpha / math.pi) ** 0.75 * math.sqrt((4 * alpha) ** sum(pw) / math.prod(dfact(2 * n - 1) for n in pw))

    def scc(p, q):
        if any((x + y) % 2 for x, y in zip(p, q)):
            return 0.0
        val = norm(a, p) * norm(b, q) * (math.pi / (a + b)) ** 1.5
        for x, y in zip(p, q):
            val *= dfact(x + y - 1) / (2 * (a + b)) ** ((x + y) // 2)
        return val

    def tmat(l, kind):
        c = carts(l)
        if kind == "c":
            return [[1.0 if i == j else 0.0 for j in range(len(c))] for i in range(len(c))]
        labels = ["c0"] + [f"{cs}{m}" for m in range(1, l + 1) for cs in "cs"]
        return [[HR.cart_to_pure_entry_sq(l, lab, pw)[0] * math.sqrt(float(HR.cart_to_pure_entry_sq(l, lab, pw)[1])) for pw in c]
                for lab in labels]
    c1, c2 = carts(l1), carts(l2)
    s = [[scc(p, q) for q in c2] for p in c1]
    t1, t2 = tmat(l1, k1), tmat(l2, k2)
    return [[sum(t1[i][x] * s[x][y] * t2[j][y] for x in range(len(c1)) for y in range(len(c2))) for j in range(len(t2))]
            for i in range(len(t1))]


def h_same_center_pair(ctx, l1=2, k1="p", l2=4, k2="c", two_bases=False, twin=False):
    """Two shells of different type on one centre anywhere in space (or on coincident centres of two bases): every element
    of the block against the closed formula (exponents from a grid; the position of the centre is symbolic)."""
    import iodata.attrutils as A
    import iodata.basis as B
    import iodata.convert as C
    import iodata.overlap as OV
    a, b = 0.8, 1.7
    r = ctx.real_array("R", (1, 3), lo=-50, hi=50)
    with stubbed(OV, C, B, A):
        sh1 = B.Shell(0, [l1], [k1], [a], [[1.0]])
        sh2 = B.Shell(0, [l2], [k2], [b], [[1.0]])
        if two_bases:
            ob1 = B.MolecularBasis([sh1], C.HORTON2_CONVENTIONS, "L2")
            ob2 = B.MolecularBasis([sh2], C.HORTON2_CONVENTIONS, "L2")
            blk = OV.compute_overlap(ob1, r, ob2, r.copy())
        else:
            ob = B.MolecularBasis([sh1, sh2], C.HORTON2_CONVENTIONS, "L2")
            olp = OV.compute_overlap(ob, r)
            n1 = sh1.nbasis
            blk = olp[:n1, n1:]
    ref = _ref_block(l1, k1, a, l2, k2, b)
    cls = f"{l1}{k1}|{l2}{k2},two_bases={two_bases}"
    ctx.oblige("block-shape", blk.shape == (len(ref), len(ref[0])), cls=cls, detail=str(blk.shape))
    parts = []
    for i, row in enumerate(ref):
        for j, v in enumerate(row):
            want = v + (0.5 if twin and i == 0 and j == 0 else 0.0)
            g = blk[i, j]
            parts.append(ctx.near(g, want, 1e-9) if isinstance(g, Sym) else abs(float(g) - want) < 1e-9)
    bad = [k for k, x in enumerate(parts) if x is False]
    ctx.oblige("same-centre-block-is-the-exact-inner-product", And(*[x for x in parts if x is not True]) if not bad else False, cls=cls,
               detail=f"first differing element {divmod(bad[0], len(ref[0]))}" if bad else "", timeout_ms=60000)


def jobs(tier):
    M = "harness.c06"
    out = []
    for n1 in range(8):
        for n2 in range(8):
            out.append(job("C06", f"kernel[{n1},{n2}]", M, "h_kernel", dict(n1=n1, n2=n2), budget_s=120))
    out.append(job("C06", "kernel[twin]", M, "h_kernel", dict(n1=2, n2=1, twin=True), expect="cex"))
    for l in range(0, (10 if tier == "thorough" else 8)):
        out.append(job("C06", f"normalisation[l={l}]", M, "h_norm", dict(l=l), budget_s=600, oblige_timeout_ms=60000))
    out.append(job("C06", "normalisation[twin]", M, "h_norm", dict(l=1, twin=True), expect="cex"))
    for l in range(8):
        out.append(job("C06", f"cart-to-pure-table[l={l}]", M, "h_tables", dict(l=l), validate=False))
    lm = 3 if tier == "thorough" else 2
    for l in range(lm + 1):
        out.append(job("C06", f"single-center[{l}c]", M, "h_single_center", dict(l=l, kind="c"), budget_s=600))
    for l in range(2, lm + 1):
        out.append(job("C06", f"single-center[{l}p]", M, "h_single_center", dict(l=l, kind="p"), budget_s=600))
    pairs = [(0, "c", 2, "c"), (1, "c", 3, "c"), (2, "p", 2, "c"), (2, "p", 4, "c"), (2, "c", 4, "p"), (2, "p", 4, "p"), (3, "p", 5, "c"), (3, "p", 3, "c")]
    if tier == "thorough":
        pairs += [(2, "p", 6, "c"), (4, "p", 6, "c"), (3, "p", 7, "c"), (5, "p", 7, "c"), (0, "c", 4, "c"), (1, "c", 5, "p"), (4, "p", 4, "c")]
    for l1, k1, l2, k2 in pairs:
        for tb in (False, True):
            if tb and tier == "quick" and (l1, l2) not in ((2, 4), (3, 5)):
                continue
            out.append(job("C06", f"same-centre-pair[{l1}{k1}|{l2}{k2},two_bases={int(tb)}]", M, "h_same_center_pair",
                           dict(l1=l1, k1=k1, l2=l2, k2=k2, two_bases=tb), budget_s=600, max_validate=2, oblige_timeout_ms=60000))
    out.append(job("C06", "same-centre-pair[twin]", M, "h_same_center_pair", dict(l1=0, k1="c", l2=2, k2="c", twin=True), expect="cex",
                   max_validate=0))
    out.append(job("C06", "single-center[twin]", M, "h_single_center", dict(l=1, kind="c", twin=True), expect="cex"))
    for spec in ("small", "gen"):
        for prop in ("symmetric", "transpose", "translate", "conventions"):
            if tier == "quick" and spec == "small" and prop == "transpose":
                continue        # many exp terms: 10 min; thorough only
            out.append(job("C06", f"two-center[{spec},{prop}]", M, "h_two_center", dict(spec=spec, prop=prop),
                           budget_s=200 if tier == "quick" else 2400, max_validate=4))
    for spec in ("tiny", "small", "gen"):
        out.append(job("C06", f"two-center[{spec},same-object]", M, "h_two_center", dict(spec=spec, prop="same-object"), budget_s=400, max_validate=4))
    out.append(job("C06", "two-center-values[small]", M, "h_two_center_values", dict(spec="small"), budget_s=600, max_validate=6,
                   oblige_timeout_ms=30000))
    out.append(job("C06", "two-center-values[twin]", M, "h_two_center_values", dict(spec="small", twin=True), expect="cex",
                   budget_s=300, max_validate=0, stop_after_cex=2))
    out.append(job("C06", "two-center[twin]", M, "h_two_center", dict(spec="small", prop="symmetric", twin=True),
                   expect="cex", max_validate=0))
    out.append(job("C06", "reject", M, "h_reject", {}))
    return out
