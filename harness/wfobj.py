"""Builder of wavefunction objects (nuclei + Gaussian basis + orbitals) with symbolic numbers."""

from __future__ import annotations

import numpy as np


def conventions(name):
    """Convention dictionaries by name (format tables, HORTON2, CCA, reversed+flipped)."""
    import iodata.convert as C
    import iodata.formats.fchk as fchk
    import iodata.formats.molden as molden
    import iodata.formats.wfn as wfn
    base = {"fchk": fchk.CONVENTIONS, "molden": molden.CONVENTIONS, "wfn": wfn.CONVENTIONS,
            "horton2": C.HORTON2_CONVENTIONS, "cca": C.CCA_CONVENTIONS}
    if name in base:
        # format tables that lack a shell type (e.g. pure functions in the WFN table) are completed from HORTON2
        return {**C.HORTON2_CONVENTIONS, **base[name]}
    if name == "revflip":
        # every shell type reversed and every label sign-flipped (a legal but unusual convention)
        out = {}
        for k, v in C.HORTON2_CONVENTIONS.items():
            out[k] = [("" if lab.startswith("-") else "-") + lab.lstrip("-") for lab in reversed(v)]
        return out
    if name == "partflip":
        # a legal convention with a sign flip on every second label and the labels rotated by one position: the signs are not
        # uniform over the basis, so they must travel with their functions through every re-ordering
        out = {}
        for k, v in C.HORTON2_CONVENTIONS.items():
            lab = [("-" if i % 2 else "") + x for i, x in enumerate(v)]
            out[k] = lab[1:] + lab[:1]
        return out
    if name.startswith("flip:"):
        # the order of a format's own table with a sign flip on every second label: converting to that format is a pure
        # sign change (identity permutation)
        return {k: [("-" if (i % 2) != lab.startswith("-") else "") + lab.lstrip("-") for i, lab in enumerate(v)]
                for k, v in conventions(name[5:]).items()}
    raise KeyError(name)


def nbasis_of(shells):
    n = 0
    for (_ic, ls, kinds, _np) in shells:
        for l, k in zip(ls, kinds):
            n += (l + 1) * (l + 2) // 2 if k == "c" else 2 * l + 1
    return n


EXPONENT_GRID = [0.3, 1.7, 12.5, 0.05, 310.0, 2.9, 0.11]


def make_wf(ctx, atoms, shells, conv="horton2", mo_kind="restricted", norb=None, occ="closed", sym=True,
            energies=True, tag="", extra_kw=None, coords_sym=True, contraction_sym=True):
    """Return kwargs for IOData.

    atoms: list of (Z, core_charge or None); shells: list of (icenter, [l], [kinds], nprim);
    occ: 'closed' | 'rohf' | 'virtual' | 'aminusb' | 'fractional' (restricted), 'uhf' (unrestricted).
    """
    import iodata.basis as B
    import iodata.orbitals as O
    symbolic = ctx.mode == "sym" and sym
    natom = len(atoms)
    atnums = np.array([z for z, _ in atoms])
    kw = dict(atnums=atnums)
    if any(q is not None for _, q in atoms):
        kw["atcorenums"] = np.array([float(z if q is None else q) for z, q in atoms])
    if coords_sym:
        coords = ctx.real_array(f"{tag}R", (natom, 3), lo=-20, hi=20)
        if ctx.mode == "conc":
            # distinct default positions in replay when the model leaves them unconstrained
            pass
    else:
        coords = np.array([[0.7 * i, -0.4 * i, 0.3 * i * i] for i in range(natom)], dtype=float)
    kw["atcoords"] = coords
    shs = []
    ig = 0
    for k, (ic, ls, kinds, nprim) in enumerate(shells):
        exps = np.array([EXPONENT_GRID[(ig + p) % len(EXPONENT_GRID)] for p in range(nprim)])
        ig += nprim
        if contraction_sym:
            co = ctx.real_array(f"{tag}D{k}", (nprim, len(ls)), lo=-5, hi=5)
        else:
            co = np.array([[0.6 + 0.1 * p - 0.05 * c for c in range(len(ls))] for p in range(nprim)])
        shs.append(B.Shell(ic, ls, kinds, exps, co))
    ob = B.MolecularBasis(shs, conventions(conv) if isinstance(conv, str) else conv, "L2")
    kw["obasis"] = ob
    nb = nbasis_of(shells)
    if norb is None:
        norb = min(nb, 2)
    if mo_kind == "restricted":
        ncol = norb
        if occ == "closed":
            occs = [2.0] * 1 + [0.0] * (norb - 1) if norb > 1 else [2.0]
            occs = [2.0] * norb if norb == 1 else [2.0] + [0.0] * (norb - 1)
            occs = np.array([2.0] * max(1, norb - 1) + ([0.0] if norb > 1 else []))
        elif occ == "full":
            occs = np.array([2.0] * norb)
        elif occ == "rohf":
            occs = np.array([2.0] * (norb - 1) + [1.0]) if norb > 1 else np.array([1.0])
        elif occ == "hole":
            # not an aufbau filling: an empty orbital below an occupied one
            occs = np.array([0.0] + [2.0] * (norb - 1)) if norb > 1 else np.array([2.0])
        elif occ == "fractional":
            occs = np.array([1.6, 0.4][:norb] + [0.0] * max(0, norb - 2))
        elif occ == "aminusb-zero":
            occs = np.array([1.0] * norb)
        elif occ == "aminusb-singlet":
            # open-shell singlet: one alpha and one beta electron in different orbitals (zero net spin)
            occs = np.array([1.0] * norb)
        elif occ == "aminusb":
            occs = np.array([1.7] + [0.3] * (norb - 1))
        else:
            raise ValueError(occ)
        ab = None
        if occ == "aminusb":
            ab = np.array([0.3] + [0.1] * (norb - 1))
        if occ == "aminusb-zero":
            ab = np.zeros(norb)        # alpha = beta = occs / 2 although the occupations are integers
        if occ == "aminusb-singlet":
            ab = np.array([1.0, -1.0] + [0.0] * (norb - 2))[:norb]
        args = [mo_kind, norb, norb]
    elif mo_kind == "unrestricted":
        na = norb
        nbeta = norb if occ != "uhf-odd" else max(1, norb - 1)
        ncol = na + nbeta
        occs = np.array([1.0] * max(1, na - 1) + ([0.0] if na > 1 else []) + [1.0] * max(1, nbeta - 1) + ([0.0] if nbeta > 1 else []))
        if occ == "uhf-open":
            occs = np.array([1.0] * na + [1.0] * max(0, nbeta - 1) + [0.0] * min(1, nbeta))
        ab = None
        args = [mo_kind, na, nbeta]
    elif mo_kind == "generalized":
        ncol = norb
        occs = np.array([1.0] * norb)
        ab = None
        args = [mo_kind, None, None]
        nb = 2 * nb
    else:
        raise ValueError(mo_kind)
    if symbolic:
        coeffs = ctx.real_array(f"{tag}C", (nb, ncol), lo=-3, hi=3)
        ener = ctx.real_array(f"{tag}E", (ncol,), lo=-5000, hi=5000) if energies else None
    else:
        if ctx.mode == "conc" and sym:
            coeffs = ctx.real_array(f"{tag}C", (nb, ncol))
            ener = ctx.real_array(f"{tag}E", (ncol,)) if energies else None
        else:
            coeffs = np.array([[0.3 + 0.1 * m - 0.07 * i + 0.013 * m * i for i in range(ncol)] for m in range(nb)])
            ener = np.array([-1.0 + 0.4 * i for i in range(ncol)]) if energies else None
    kw["mo"] = O.MolecularOrbitals(*args, occs, coeffs, ener, None, ab)
    if extra_kw:
        kw.update(extra_kw)
    return kw
