"""C01 - wavefunction conversion never silently changes the wavefunction."""

from __future__ import annotations

import warnings

import numpy as np

from harness import rt, wfobj
from specs import basisfun as BF
from symx import core
from symx.core import And, Not, Or, Sym
from symx.runner import job
from symx.stubs import stubbed

META = dict(
    bounds=dict(
        quick="targets fchk, molden, molekel, wfn, wfx through api.dump_one; 2 atoms (incl. an ECP centre for formats that "
              "store core charges); shell lists: s+p, three shells in unsorted centre order, Cartesian d, pure d, SP, "
              "generalized [s,s]; conventions: the target's own, HORTON2, reversed+sign-flipped, sign flip on every second label plus rotation; orbitals restricted "
              "closed-shell with a virtual, ROHF, unrestricted, occs_aminusb, an empty orbital below an occupied one; allow_changes in {False, True}; all MO coefficients, "
              "orbital energies, contraction coefficients (and coordinates for wfn/wfx/fchk) symbolic; exponents from a "
              "rational grid; the written text is read back with the real reader and both objects are compared as "
              "functions of space through their expansion in linearly independent normalised primitives",
        thorough="adds Cartesian f shells, a three-centre four-shell basis in unsorted order, CCA conventions, and 15 wavefunction "
                 "files of the repository's corpus (fchk, wfn, wfx, mkl, molden, mwfn, cp2k) as conversion sources to all "
                 "five targets: basis, occupations and conventions as loaded, all orbital coefficients and energies symbolic"),
    outside=["an independent parser of the written text is used for WFN only (job wfn-parse); for the other formats the "
             "decoder is the real reader, so a writer and reader that are wrong in the same way are not separated",
             "Molden/Molekel reload: the vendor-detection cascade is short-circuited to 'standard file' (its subject is "
             "C05); coordinates and contraction coefficients concrete there", "float digits; more than 4 shells; "
             "density matrices other than FCHK's scf / scf_spin"],
    assumptions=["basis functions compared through expansions in normalised primitives keyed by (centre, exponent, kind, "
                 "l, polynomial) (specs/basisfun.py)", "float-noise-tolerant equality of canonical forms (1e-7)",
                 "tokens / in-memory files / exact reals"],
    explanation="symbolic execution of dump_one (prepare_dump, convert_conventions, writers) and load_one on the result",
)

# small wavefunction files of the repository's corpus used as conversion sources (thorough tier)
FIXTURE_SOURCES = ["h2o_sto3g.fchk", "ch3_hf_sto3g.fchk", "ch3_rohf_sto3g_g03.fchk", "he_spd_orbital.fchk", "li_h_3-21G_hf_g09.fchk",
                   "h2o_sto3g.wfn", "he_spd_orbital.wfn", "lih_cation_uhf.wfn", "lih_cation_rohf.wfx", "h2_ub3lyp_ccpvtz.wfx",
                   "h2_sto3g.mkl", "nh3_molden_cart.molden", "he2_ghost_psi4_1.0.molden", "ch3_hf_sto3g_fchk_multiwfn3.7.mwfn",
                   "carbon_sc_ae_contracted.cp2k.out"]
FILENAMES = dict(fchk="a.fchk", molden="a.molden", molekel="a.mkl", wfn="a.wfn", wfx="a.wfx")
ATOMS = [(8, None), (1, None)]
SHELLSETS = {
    "sp": [(0, [0], ["c"], 2), (1, [1], ["c"], 1)],
    "unsorted": [(1, [0], ["c"], 1), (0, [1], ["c"], 1), (1, [1], ["c"], 1)],
    "dcart": [(0, [2], ["c"], 1), (1, [0], ["c"], 1)],
    "dpure": [(0, [2], ["p"], 1), (1, [0], ["c"], 1)],
    "SP": [(0, [0, 1], ["c", "c"], 2), (1, [0], ["c"], 1)],
    "gen": [(0, [0, 0], ["c", "c"], 2), (1, [0], ["c"], 1)],
    "fcart": [(0, [3], ["c"], 1)],
    # pure d with Cartesian f and the reverse (Gaussian's 5D 10F / 6D 7F)
    "dpfc": [(0, [2], ["p"], 1), (1, [3], ["c"], 1)],
    "dcfp": [(0, [2], ["c"], 1), (1, [3], ["p"], 1)],
    # three centres, four shells stored in unsorted centre order, Cartesian and pure d
    "big": [(2, [0], ["c"], 2), (0, [1], ["c"], 1), (1, [2], ["p"], 1), (0, [2], ["c"], 1)],
}
ATOMS3 = [(8, None), (1, None), (6, None)]


def semantic(ctx, data):
    """alpha / beta orbital lists: (occupation, energy, expansion)."""
    funcs = BF.basis_functions(BF.shells_of(data.obasis), data.obasis.conventions)
    mo = data.mo
    out = {}
    for spin in "ab":
        occ = getattr(mo, "occs" + spin)
        co = getattr(mo, "coeffs" + spin)
        en = getattr(mo, "energies" + spin)
        lst = []
        for i in range(co.shape[1]):
            lst.append((occ[i], None if en is None else en[i], BF.combine(list(co[:, i]), funcs)))
        out[spin] = lst
    return out


def same_orbitals(ctx, a, b, spin_strict=True, tol=1e-7):
    """Obligations: same orbitals (function of space, occupation, energy) per spin channel."""
    res = []
    for spin in "ab":
        la, lb = a[spin], b[spin]
        if len(la) != len(lb):
            res.append((f"norb-{spin}", False, f"{len(la)} vs {len(lb)}"))
            continue
        for i, ((o1, e1, x1), (o2, e2, x2)) in enumerate(zip(la, lb)):
            res.append((f"occupation-{spin}", ctx.approx(o1, o2, 1e-7), f"orbital {i}"))
            if e1 is not None and e2 is not None:
                res.append((f"energy-{spin}", ctx.approx(e1, e2, 1e-7), f"orbital {i}"))
            res.append((f"orbital-function-{spin}", _exp_close(ctx, x1, x2, tol), f"orbital {i}"))
    return res


def _snap(e1, e2, rel=2e-6):
    """Re-key e2 on the exponents of e1 where they agree to the digits a format prints (concrete exponents only)."""
    out = {}
    k1 = list(e1)
    for key, v in e2.items():
        tgt = key
        if key not in e1 and key[1][0] == "num":
            for cand in k1:
                if cand[0] == key[0] and cand[2:] == key[2:] and cand[1][0] == "num" and \
                        abs(cand[1][1] - key[1][1]) <= rel * abs(cand[1][1]):
                    tgt = cand
                    break
        out[tgt] = out[tgt] + v if tgt in out else v
    return out


def _exp_close(ctx, e1, e2, tol=1e-7):
    e2 = _snap(e1, e2)
    parts = []
    for key in sorted(set(e1) | set(e2), key=repr):
        a, b = e1.get(key, 0.0), e2.get(key, 0.0)
        r = ctx.approx(a, b, tol, atol=1e-10 if tol <= 1e-7 else 1e-8)
        if r is True:
            continue
        if r is False:
            return False
        parts.append(r)
    return And(*parts) if parts else True


def h_convert(ctx, fmt="wfn", shells="sp", conv="own", twin=False, ecp=False):
    import iodata.api as api
    import iodata.formats.molden as molden
    from iodata.iodata import IOData
    from iodata.utils import DumpError, LoadError, PrepareDumpError
    mods = rt._fmt_modules(fmt)
    heavy = fmt in ("molden", "molekel")
    convname = {"own": {"fchk": "fchk", "molden": "molden", "molekel": "molden", "wfn": "wfn", "wfx": "wfn"}[fmt]}.get(conv, conv)
    mo_kind, occ = ctx.choice([("restricted", "closed"), ("restricted", "rohf"), ("unrestricted", "uhf-odd"),
                               ("restricted", "aminusb"), ("restricted", "aminusb-zero"), ("restricted", "hole")],
                              label="orbitals")
    allow = ctx.choice([False, True], label="allow_changes")
    atoms = [(8, 6.0), (1, None)] if ecp else (ATOMS3 if shells == "big" else ATOMS)
    with stubbed(*mods):
        kw = wfobj.make_wf(ctx, atoms, SHELLSETS[shells], conv=convname, mo_kind=mo_kind, norb=2, occ=occ,
                           coords_sym=not heavy, contraction_sym=not heavy)
        kw["energy"] = ctx.real("Etot", lo=-1e4, hi=0, default=-75.0) if not heavy else -75.0
        if fmt == "fchk":
            nb = wfobj.nbasis_of(SHELLSETS[shells])
            kw["one_rdms"] = {"scf": rt._symm(ctx, "dm", nb), "scf_spin": rt._symm(ctx, "sdm", nb)}
        data = IOData(**kw)
        src = semantic(ctx, data)
        path = ctx.tmp_path(FILENAMES[fmt])
        with warnings.catch_warnings(record=True) as wl:
            warnings.simplefilter("always")
            try:
                api.dump_one(data, path, allow_changes=allow)
                err = None
            except (PrepareDumpError, DumpError) as e:
                err = e
        cls = f"{fmt},{shells},{conv}" + (",ecp" if ecp else "")
        if err is not None:
            # failing with an error is an allowed outcome; segmented / supported objects must not be refused
            refusable = shells in ("SP", "gen", "dpure", "fcart", "big") or (occ.startswith("aminusb") and (not allow or fmt == "fchk")) \
                or (occ == "hole" and fmt == "fchk")      # FCHK stores electron counts only: aufbau fillings
            ctx.oblige("supported-object-is-written", refusable or isinstance(err, PrepareDumpError) and not allow and shells in ("SP", "gen"),
                       cls=cls, detail=f"{type(err).__name__}: {err} / {err.__cause__!r}")
            return
        # Molden/Molekel: the vendor-detection cascade is the subject of C05; here the norm gate is opened
        # (in both modes) so that arbitrary - not necessarily orthonormal - coefficients can be read back
        saved_gate = molden._is_normalized_properly
        if heavy:
            molden._is_normalized_properly = lambda *a, **k: True
        try:
            with stubbed(*mods):
                with warnings.catch_warnings(record=True):
                    warnings.simplefilter("always")
                    try:
                        back = api.load_one(path)
                        lerr = None
                    except LoadError as e:
                        lerr = e
        finally:
            molden._is_normalized_properly = saved_gate
        ctx.oblige("written-file-can-be-read-back", lerr is None, cls=f"{cls},{mo_kind}/{occ}", detail=f"{lerr} / {getattr(lerr, '__cause__', None)!r}")
        if lerr is not None:
            return
        # nuclei
        ctx.oblige("nuclei:atnums", list(back.atnums) == [z for z, _ in atoms], cls=cls)
        ctx.oblige("nuclei:coordinates", ctx.approx(back.atcoords, data.atcoords, 1e-7, atol=2e-6), cls=cls)
        if fmt in ("fchk", "molden", "wfx"):
            ctx.oblige("nuclei:core-charges", ctx.approx(back.atcorenums, data.atcorenums, 1e-7), cls=cls)
        if fmt == "fchk":
            # every stored density matrix denotes the same density (bilinear form over the primitives)
            for key, dm in data.one_rdms.items():
                got = back.one_rdms.get(key)
                if got is None:
                    ctx.oblige(f"density:{key}", False, cls=f"{cls},{mo_kind}/{occ}", detail="missing after reload")
                    continue
                ctx.oblige(f"density:{key}", rt.same_density(ctx, data.obasis, dm, back.obasis, got), cls=f"{cls},{mo_kind}/{occ}")
        dst = semantic(ctx, back)
        if twin:
            dst["a"] = [(o, e, {k: v * 2.0 for k, v in x.items()}) for (o, e, x) in dst["a"]]
        kind_same = back.mo.kind == data.mo.kind
        if fmt == "wfn" and (data.mo.kind == "unrestricted" or occ.startswith("aminusb")):
            # documented heuristic: a WFN file without the Multiwfn spin section cannot express which orbitals are
            # alpha and which beta when no occupation exceeds 1 - compare the orbital list without spin labels
            def flat(sem, mo, force=False):
                return {"a": sem["a"] + sem["b"] if (mo.kind == "unrestricted" or force) else sem["a"], "b": []}
            for label, f, where in same_orbitals(ctx, flat(src, data.mo, occ.startswith("aminusb")), flat(dst, back.mo)):
                ctx.oblige(label.replace("-a", "-any-spin"), f, cls=f"{cls},{mo_kind}", detail=where)
            return
        if not occ.startswith("aminusb"):
            ctx.oblige("orbital-kind", kind_same, cls=cls, detail=f"{data.mo.kind} -> {back.mo.kind}")
        if kind_same or occ.startswith("aminusb"):
            # restricted orbitals with occs_aminusb come back unrestricted (announced conversion): the alpha and beta
            # channels are compared as such
            for label, f, where in same_orbitals(ctx, src, dst):
                ctx.oblige(label, f, cls=f"{cls},{mo_kind}/{occ}", detail=where)


def h_convert_fixture(ctx, fn="h2o_sto3g.fchk", fmt="wfn"):
    """A wavefunction file of the test corpus as conversion source: its basis, occupations and conventions as loaded,
    all orbital coefficients and energies symbolic."""
    import os
    import iodata.api as api
    import iodata.formats.molden as molden
    from iodata.utils import DumpError, LoadError, PrepareDumpError
    mods = rt._fmt_modules(fmt)
    heavy = fmt in ("molden", "molekel")
    with warnings.catch_warnings(record=True):
        warnings.simplefilter("always")
        src_obj = api.load_one(os.path.join(os.path.dirname(api.__file__), "test", "data", fn))
    allow = ctx.choice([False, True], label="allow_changes")
    with stubbed(*mods):
        mo = src_obj.mo
        shape = mo.coeffs.shape
        # every coefficient and energy symbolic (exact travel through the text; the file's numbers are the replay defaults)
        co = np.empty(shape, dtype=object if ctx.mode == "sym" else float)
        for idx in np.ndindex(shape):
            co[idx] = ctx.real(f"C{idx[0]}_{idx[1]}", lo=-3, hi=3, default=float(mo.coeffs[idx]))
        mo.coeffs = co
        if mo.energies is not None:
            en = np.empty(mo.energies.shape, dtype=object if ctx.mode == "sym" else float)
            for i in range(len(en)):
                en[i] = ctx.real(f"E{i}", lo=-5000, hi=5000, default=float(mo.energies[i]))
            mo.energies = en
        data = src_obj
        src = semantic(ctx, data)
        path = ctx.tmp_path(FILENAMES[fmt])
        with warnings.catch_warnings(record=True):
            warnings.simplefilter("always")
            try:
                api.dump_one(data, path, allow_changes=allow)
                err = None
            except (PrepareDumpError, DumpError) as e:
                err = e
        cls = f"{fn}->{fmt}"
        if err is not None:
            # refusing is an allowed outcome; it must be a prepare-time refusal
            ctx.oblige("refusal-is-a-PrepareDumpError", isinstance(err, PrepareDumpError), cls=cls, detail=f"{type(err).__name__}: {err}")
            return
        gate = molden._is_normalized_properly
        if heavy:
            molden._is_normalized_properly = lambda *a, **k: True
        try:
            with stubbed(*mods):
                with warnings.catch_warnings(record=True):
                    warnings.simplefilter("always")
                    try:
                        back = api.load_one(path)
                        lerr = None
                    except LoadError as e:
                        lerr = e
        finally:
            molden._is_normalized_properly = gate
        ctx.oblige("written-file-can-be-read-back", lerr is None, cls=cls, detail=f"{lerr} / {getattr(lerr, '__cause__', None)!r}")
        if lerr is not None:
            return
        ctx.oblige("nuclei:atnums", list(back.atnums) == list(data.atnums), cls=cls)
        ctx.oblige("nuclei:coordinates", ctx.approx(back.atcoords, data.atcoords, 1e-7, atol=2e-6), cls=cls)
        dst = semantic(ctx, back)
        if fmt == "wfn" and data.mo.kind == "unrestricted":
            def flat(sem):
                return {"a": sem["a"] + sem["b"], "b": []}
            src, dst = flat(src), (flat(dst) if back.mo.kind == "unrestricted" else dst)
        elif back.mo.kind != data.mo.kind:
            ctx.oblige("orbital-kind", False, cls=cls, detail=f"{data.mo.kind} -> {back.mo.kind}")
            return
        if fmt in ("wfn", "wfx"):
            # these formats keep occupied orbitals and whatever virtuals are listed: compare the orbitals that came back
            pass
        # concrete exponents and contraction coefficients of the fixture travel through the digits the format prints
        # (7 significant digits for WFN exponents): agreement of the expansion coefficients to 1e-5
        for label, f, where in same_orbitals(ctx, src, dst, tol=1e-5):
            ctx.oblige(label, f, cls=cls, detail=where)


def jobs(tier):
    M = "harness.c01"
    out = []
    fmts = ("fchk", "molden", "molekel", "wfn", "wfx")
    for fmt in fmts:
        for shells in ("sp", "unsorted", "dcart", "dpure", "SP", "gen") + (("fcart", "big") if tier == "thorough" else ()):
            for conv in ("own", "horton2", "revflip", "partflip") + (("cca",) if tier == "thorough" else ()):
                if conv != "own" and shells in ("SP", "gen") and tier == "quick":
                    continue
                if conv == "partflip" and shells in ("sp", "dcart") and tier == "quick":
                    continue
                out.append(job("C01", f"convert[{fmt},{shells},{conv}]", M, "h_convert", dict(fmt=fmt, shells=shells, conv=conv),
                               budget_s=300 if tier == "quick" else 2400, max_validate=2, oblige_timeout_ms=30000))
        if tier == "quick" and fmt in ("wfn", "wfx", "molden", "fchk"):
            # Cartesian f functions (the formats disagree on their order) with the target's own and with HORTON2 conventions
            for conv in ("own", "horton2"):
                out.append(job("C01", f"convert[{fmt},fcart,{conv}]", M, "h_convert", dict(fmt=fmt, shells="fcart", conv=conv),
                               budget_s=300, max_validate=2, oblige_timeout_ms=30000))
        if fmt in ("fchk", "molden", "molekel"):
            for shells in ("dpfc", "dcfp"):
                out.append(job("C01", f"convert[{fmt},{shells},horton2]", M, "h_convert", dict(fmt=fmt, shells=shells, conv="horton2"),
                               budget_s=300, max_validate=2, oblige_timeout_ms=30000))
        out.append(job("C01", f"convert[{fmt},sp,own,ecp]", M, "h_convert", dict(fmt=fmt, shells="sp", conv="own", ecp=True),
                       budget_s=300, max_validate=2))
    if tier == "thorough":
        for fn in FIXTURE_SOURCES:
            for fmt in fmts:
                out.append(job("C01", f"fixture[{fn}->{fmt}]", M, "h_convert_fixture", dict(fn=fn, fmt=fmt), budget_s=1200,
                               max_validate=2, oblige_timeout_ms=30000))
    out.append(job("C01", "convert[twin]", M, "h_convert", dict(fmt="wfn", shells="sp", conv="own", twin=True), expect="cex",
                   max_validate=0))
    return out
