"""CrossHair contracts (PEP 316 docstrings) for small string functions of iodata.

Each ``check_*`` function returns a value that must equal an independent specification; CrossHair
searches symbolic inputs for a counterexample.  "Confirmed over all paths" is rare for string code;
"Not confirmed" is reported as inconclusive (never as a pass).
"""

from iodata.basis import angmom_its, angmom_sti
from iodata.utils import strtobool

TRUE_WORDS = ("y", "yes", "t", "true", "on", "1")
FALSE_WORDS = ("n", "no", "f", "false", "off", "0")
LETTERS = "spdfghiklmnoqrtuvwxyzabce"


def spec_strtobool(s: str) -> int:
    low = s.lower()
    if low in TRUE_WORDS:
        return 1
    if low in FALSE_WORDS:
        return 0
    return -1


def run_strtobool(s: str) -> int:
    try:
        return 1 if strtobool(s) else 0
    except ValueError:
        return -1


def check_strtobool(s: str) -> bool:
    """
    pre: len(s) <= 5
    post: __return__ == True
    """
    return run_strtobool(s) == spec_strtobool(s)


def check_strtobool_case(w: int, mask: int) -> bool:
    """
    pre: 0 <= w < 12 and 0 <= mask < 32
    post: __return__ == True
    """
    # every spelling of every documented word in any mix of upper and lower case letters (the word and the case mask are
    # symbolic; strings of this shape are too rare for the search over arbitrary short strings above)
    word = (TRUE_WORDS + FALSE_WORDS)[w]
    s = "".join(ch.upper() if (mask >> i) & 1 else ch for i, ch in enumerate(word))
    return run_strtobool(s) == (1 if w < 6 else 0)


def check_angmom_roundtrip(n: int) -> bool:
    """
    pre: 0 <= n < 25
    post: __return__ == True
    """
    c = angmom_its(n)
    return len(c) == 1 and c == LETTERS[n] and angmom_sti(c) == n and angmom_sti(c.upper()) == n


def check_angmom_sti(c: str) -> bool:
    """
    pre: len(c) == 1
    post: __return__ == True
    """
    try:
        n = angmom_sti(c)
    except ValueError:
        return c.lower() not in LETTERS
    return 0 <= n < 25 and LETTERS[n] == c.lower()


def check_angmom_negative(n: int) -> bool:
    """
    pre: -50 <= n < 0
    post: __return__ == True
    """
    try:
        angmom_its(n)
    except ValueError:
        return True
    return False
