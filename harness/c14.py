"""C14 - basis segmentation and orbital un-restriction preserve the physics."""

from __future__ import annotations

import warnings

import numpy as np

from specs import basisfun as BF
from symx import core
from symx.core import And, Not, Or, Sym, sym_abs
from symx.runner import job
from symx.stubs import stubbed

META = dict(
    bounds=dict(
        quick="segmentation: bases of 1-3 shells, each segmented / SP / generalized with 1..3 contractions (thorough 5), "
              "angular momenta 0..3 mixed, kinds c/p, 1-2 primitives (one shell: 3 and 4 primitives), all real exponents > 0 and contraction "
              "coefficients, keep_sp in {False, True}; un-restriction: restricted sets with 1..3 orbitals, 2 basis "
              "functions, all real occupations (integer open-shell and fractional paths), with/without occs_aminusb, "
              "optional arrays present/absent; unrestricted and generalized inputs; prepare_* wrappers with "
              "allow_changes in {False, True}",
        thorough="as quick with up to 5 contractions per shell and 4 orbitals"),
    outside=["more than 5 contractions / 4 orbitals", "float rounding"],
    assumptions=["basis functions compared through their expansion in linearly independent normalised primitives "
                 "(specs/basisfun.py)", "exact real arithmetic",
                 "numpy replaced by symnp in iodata.convert/basis/orbitals/attrutils/prepare"],
    explanation="symbolic execution of convert_to_segmented / convert_to_unrestricted / prepare_*",
)


def _mods():
    import iodata.attrutils as A
    import iodata.basis as B
    import iodata.convert as C
    import iodata.iodata as I
    import iodata.orbitals as O
    import iodata.prepare as P
    return A, B, C, I, O, P


SHELL_MENU = [
    ("seg", [0], ["c"]), ("seg", [2], ["p"]), ("seg", [1], ["c"]), ("sp", [0, 1], ["c", "c"]),
    ("gen", [0, 0], ["c", "c"]), ("gen", [1, 2], ["c", "p"]), ("gen", [0, 1, 2], ["c", "c", "c"]),
    ("gen", [1, 0], ["c", "c"]), ("gen", [3, 2, 2], ["p", "c", "p"]),
]
SHELL_MENU_THOROUGH = SHELL_MENU + [
    ("gen", [0, 0, 0, 0], ["c"] * 4), ("gen", [0, 1, 1, 2, 3], ["c", "c", "c", "p", "c"]),
]


def _mk_basis(ctx, B, C, nshell, menu, nprim):
    shells = []
    for i in range(nshell):
        kind, ls, ks = ctx.choice(menu, label=f"shell{i}")
        exps = ctx.real_array(f"a{i}", (nprim,), lo=0.01, hi=1e5)
        coeffs = ctx.real_array(f"d{i}", (nprim, len(ls)))
        shells.append(B.Shell(i % 2, ls, ks, exps, coeffs))
    return B.MolecularBasis(shells, C.HORTON2_CONVENTIONS, "L2")


def _is_sp(sh):
    return len(sh.angmoms) == 2 and list(sh.angmoms) == [0, 1]


def h_segmented(ctx, nshell=2, nprim=2, keep_sp=False, tier="quick", twin=False):
    A, B, C, I, O, P = _mods()
    menu = SHELL_MENU_THOROUGH if tier == "thorough" else SHELL_MENU
    with stubbed(A, B, C):
        ob = _mk_basis(ctx, B, C, nshell, menu, nprim)
        before = BF.basis_functions(BF.shells_of(ob), ob.conventions)
        nshell_before = len(ob.shells)
        new = C.convert_to_segmented(ob, keep_sp)
        after = BF.basis_functions(BF.shells_of(new), new.conventions)
        if twin:
            after = after[1:] + after[:1]
        cls = f"keep_sp={keep_sp}"
        ctx.oblige("seg:same-functions-same-order", BF.list_equal(ctx, before, after), cls=cls)
        ctx.oblige("seg:all-shells-segmented-or-sp",
                   all(sh.ncon == 1 or (keep_sp and _is_sp(sh)) for sh in new.shells), cls=cls)
        ctx.oblige("seg:nbasis-preserved", new.nbasis == ob.nbasis, cls=cls)
        ctx.oblige("seg:conventions-and-normalization-kept",
                   new.conventions == ob.conventions and new.primitive_normalization == "L2", cls=cls)
        ctx.oblige("seg:input-basis-untouched", len(ob.shells) == nshell_before and
                   BF.list_equal(ctx, before, BF.basis_functions(BF.shells_of(ob), ob.conventions)), cls=cls)
        # idempotent
        again = C.convert_to_segmented(new, keep_sp)
        ctx.oblige("seg:idempotent", len(again.shells) == len(new.shells) and BF.list_equal(
            ctx, after if not twin else BF.basis_functions(BF.shells_of(new), new.conventions),
            BF.basis_functions(BF.shells_of(again), again.conventions)), cls=cls)
        if keep_sp:
            n_sp_before = sum(1 for sh in ob.shells if _is_sp(sh))
            n_sp_after = sum(1 for sh in new.shells if _is_sp(sh))
            ctx.oblige("seg:sp-shells-kept", n_sp_before == n_sp_after, cls=cls)


def h_prepare_segmented(ctx, nshell=2, keep_sp=False):
    A, B, C, I, O, P = _mods()
    import iodata.utils as U
    with stubbed(A, B, C, I, P):
        ob = _mk_basis(ctx, B, C, nshell, SHELL_MENU, 1)
        data = I.IOData(obasis=ob)
        needs = not all(sh.ncon == 1 or (keep_sp and _is_sp(sh)) for sh in ob.shells)
        allow = ctx.choice([False, True], label="allow_changes")
        with warnings.catch_warnings(record=True) as wl:
            warnings.simplefilter("always")
            try:
                res = P.prepare_segmented(data, keep_sp, allow, "f.x", "fmt")
                err = None
            except U.PrepareDumpError as e:
                err = e
        warned = any(issubclass(w.category, U.PrepareDumpWarning) for w in wl)
        cls = f"keep_sp={keep_sp},allow={allow}"
        if not needs:
            ctx.oblige("prepseg:same-object-when-nothing-to-do", err is None and res is data and not warned, cls=cls)
        elif not allow:
            ctx.oblige("prepseg:PrepareDumpError-without-allow_changes", err is not None, cls=cls)
        else:
            ctx.oblige("prepseg:converted-with-warning", err is None and warned and res is not data, cls=cls)
            if err is None:
                b = BF.basis_functions(BF.shells_of(ob), ob.conventions)
                a = BF.basis_functions(BF.shells_of(res.obasis), res.obasis.conventions)
                ctx.oblige("prepseg:same-functions", BF.list_equal(ctx, b, a), cls=cls)
                ctx.oblige("prepseg:argument-untouched", data.obasis is ob, cls=cls)
        # no basis: ValueError
    with stubbed(P, I):
        try:
            P.prepare_segmented(I.IOData(), keep_sp, True, "f.x", "fmt")
            ok = False
        except ValueError:
            ok = True
        ctx.oblige("prepseg:no-basis-ValueError", ok)


def _spec_ab(ctx, occs, ab):
    """alpha/beta occupations per the class documentation (independent of the code).

    Returns (occsa, occsb) or forks on the integer/fractional heuristic in symbolic mode.
    """
    n = len(occs)
    if ab is not None:
        return [(occs[i] + ab[i]) / 2 for i in range(n)], [(occs[i] - ab[i]) / 2 for i in range(n)]
    if ctx.mode == "conc":
        isint = all(float(o) == int(o) for o in occs)
    else:
        isint = bool(And(*[o == core.sym_trunc(o) for o in occs]))
    if isint:
        def clip(o):
            if ctx.mode == "conc":
                return min(max(o, 0.0), 1.0)
            t = core.lift(o)
            import z3
            return Sym(z3.If(t < 0, z3.RealVal(0), z3.If(t > 1, z3.RealVal(1), t)))
        a = [clip(o) for o in occs]
        return a, [occs[i] - a[i] for i in range(n)]
    return [o / 2 for o in occs], [o / 2 for o in occs]


def _dm(occ, coeffs, nb):
    return [[sum(occ[i] * coeffs[m][i] * coeffs[n][i] for i in range(len(occ))) for n in range(nb)]
            for m in range(nb)]


def h_unrestricted(ctx, norb=2, nbasis=2, with_ab=False, opt="all", twin=False):
    A, B, C, I, O, P = _mods()
    with stubbed(A, C, O):
        occs = ctx.real_array("occ", (norb,), lo=-0.5, hi=2.5)
        ab = ctx.real_array("ab", (norb,), lo=-2, hi=2) if with_ab else None
        coeffs = ctx.real_array("c", (nbasis, norb)) if opt in ("all", "coeffs") else None
        energies = ctx.real_array("e", (norb,)) if opt == "all" else None
        irreps = np.array([f"i{k}" for k in range(norb)]) if opt == "all" else None
        mo = O.MolecularOrbitals("restricted", norb, norb, occs, coeffs, energies, irreps, ab)
        nelec0, spinpol0 = mo.nelec, mo.spinpol
        new = C.convert_to_unrestricted(mo)
        sa, sb = _spec_ab(ctx, list(occs), None if ab is None else list(ab))
        if twin:
            sa = [x + 1.0 for x in sa]
        cls = f"ab={with_ab},opt={opt}"
        ctx.oblige("unr:kind-and-counts", new.kind == "unrestricted" and new.norba == norb and new.norbb == norb, cls=cls)
        ctx.oblige("unr:alpha-occupations", ctx.eq(list(new.occsa), sa), cls=cls)
        ctx.oblige("unr:beta-occupations", ctx.eq(list(new.occsb), sb), cls=cls)
        ctx.oblige("unr:nelec", ctx.eq(new.nelec, nelec0) and ctx.eq(new.nelec, sum(sa, 0.0) + sum(sb, 0.0) - (norb if twin else 0)), cls=cls)
        sp = sum(sa, 0.0) - sum(sb, 0.0) - (norb if twin else 0)
        ctx.oblige("unr:spinpol", And(ctx.eq(new.spinpol, spinpol0),
                                      ctx.eq(new.spinpol, sym_abs(sp) if ctx.mode == "sym" else abs(sp))), cls=cls)
        if coeffs is not None:
            ctx.oblige("unr:coefficients", And(ctx.eq(new.coeffsa, coeffs), ctx.eq(new.coeffsb, coeffs)), cls=cls)
            # densities as polynomials
            ca = [[new.coeffsa[m, i] for i in range(norb)] for m in range(nbasis)]
            cb = [[new.coeffsb[m, i] for i in range(norb)] for m in range(nbasis)]
            c0 = [[coeffs[m, i] for i in range(norb)] for m in range(nbasis)]
            da_new, db_new = _dm(list(new.occsa), ca, nbasis), _dm(list(new.occsb), cb, nbasis)
            da_old, db_old = _dm(sa, c0, nbasis), _dm(sb, c0, nbasis)
            ctx.oblige("unr:alpha-density", ctx.eq(da_new, da_old), cls=cls)
            ctx.oblige("unr:beta-density", ctx.eq(db_new, db_old), cls=cls)
        else:
            ctx.oblige("unr:missing-coeffs-stay-missing", new.coeffs is None, cls=cls)
        if energies is not None:
            ctx.oblige("unr:energies", And(ctx.eq(new.energiesa, energies), ctx.eq(new.energiesb, energies)), cls=cls)
            ctx.oblige("unr:irreps", list(new.irrepsa) == list(irreps) and list(new.irrepsb) == list(irreps), cls=cls)
        else:
            ctx.oblige("unr:missing-optional-stay-missing", new.energies is None and new.irreps is None, cls=cls)
        # idempotent + identity on unrestricted input
        ctx.oblige("unr:idempotent-identity", C.convert_to_unrestricted(new) is new, cls=cls)
        # source untouched
        ctx.oblige("unr:source-untouched", mo.kind == "restricted" and ctx.eq(mo.occs, occs)
                   and (ab is None) == (mo.occs_aminusb is None), cls=cls)


def h_unrestricted_misc(ctx):
    A, B, C, I, O, P = _mods()
    import iodata.utils as U
    with stubbed(A, C, O, P, I):
        occ = ctx.real_array("occ", (2,), lo=0, hi=1)
        g = O.MolecularOrbitals("generalized", None, None, occ, ctx.real_array("c", (2, 2)))
        try:
            C.convert_to_unrestricted(g)
            ok = False
        except ValueError:
            ok = True
        ctx.oblige("unr:generalized-rejected", ok)
        occs_none = O.MolecularOrbitals("restricted", 2, 2)
        n = C.convert_to_unrestricted(occs_none)
        ctx.oblige("unr:no-occupations-stay-none", n.kind == "unrestricted" and n.occs is None and n.norba == 2)
        # prepare_unrestricted_aminusb
        which = ctx.choice(["unrestricted", "restricted-no-ab", "restricted-ab", "generalized", "no-mo"])
        allow = ctx.choice([False, True], label="allow_changes")
        if which == "unrestricted":
            mo = O.MolecularOrbitals("unrestricted", 1, 1, occ)
        elif which == "restricted-no-ab":
            mo = O.MolecularOrbitals("restricted", 2, 2, occ)
        elif which == "restricted-ab":
            mo = O.MolecularOrbitals("restricted", 2, 2, occ, None, None, None, ctx.real_array("ab", (2,), lo=-1, hi=1))
        elif which == "generalized":
            mo = g
        else:
            mo = None
        data = I.IOData(mo=mo)
        with warnings.catch_warnings(record=True) as wl:
            warnings.simplefilter("always")
            try:
                res = P.prepare_unrestricted_aminusb(data, allow, "f.x", "fmt")
                err = None
            except (U.PrepareDumpError, ValueError) as e:
                err = e
        warned = any(issubclass(w.category, U.PrepareDumpWarning) for w in wl)
        cls = f"{which},allow={allow}"
        if which in ("unrestricted", "restricted-no-ab"):
            ctx.oblige("prepunr:same-object-when-nothing-to-do", err is None and res is data and not warned, cls=cls)
        elif which in ("generalized", "no-mo"):
            ctx.oblige("prepunr:ValueError", isinstance(err, ValueError), cls=cls)
        elif not allow:
            ctx.oblige("prepunr:PrepareDumpError-without-allow_changes", isinstance(err, U.PrepareDumpError), cls=cls)
        else:
            ctx.oblige("prepunr:converted-with-warning",
                       err is None and warned and res is not data and res.mo.kind == "unrestricted" and data.mo is mo,
                       cls=cls)


def jobs(tier):
    M = "harness.c14"
    out = []
    big = tier == "thorough"
    for nshell in (1, 2) + ((3,) if big else ()):
        for keep_sp in (False, True):
            out.append(job("C14", f"segmented[nshell={nshell},keep_sp={int(keep_sp)}]", M, "h_segmented",
                           dict(nshell=nshell, nprim=2 if nshell < 3 else 1, keep_sp=keep_sp, tier=tier),
                           budget_s=200 if not big else 3000, max_validate=20))
    # longer contractions (a contraction may skip primitives in the middle: zero coefficients are ordinary values)
    for nprim in (3, 4):
        for keep_sp in (False, True):
            out.append(job("C14", f"segmented[nshell=1,nprim={nprim},keep_sp={int(keep_sp)}]", M, "h_segmented",
                           dict(nshell=1, nprim=nprim, keep_sp=keep_sp, tier=tier), budget_s=200 if not big else 1500,
                           max_validate=20))
    out.append(job("C14", "segmented[twin]", M, "h_segmented", dict(nshell=1, nprim=1, twin=True), expect="cex"))
    for keep_sp in (False, True):
        out.append(job("C14", f"prepare-segmented[keep_sp={int(keep_sp)}]", M, "h_prepare_segmented",
                       dict(nshell=2, keep_sp=keep_sp), max_validate=20))
    for norb in (1, 2, 3) + ((4,) if big else ()):
        for with_ab in (False, True):
            for opt in ("all", "coeffs", "none"):
                if norb >= 3 and opt != "all":
                    continue
                out.append(job("C14", f"unrestricted[norb={norb},ab={int(with_ab)},{opt}]", M, "h_unrestricted",
                               dict(norb=norb, nbasis=2, with_ab=with_ab, opt=opt),
                               budget_s=200 if not big else 3000, max_validate=20))
    out.append(job("C14", "unrestricted[twin]", M, "h_unrestricted", dict(norb=1, nbasis=1, twin=True), expect="cex"))
    out.append(job("C14", "unrestricted-misc", M, "h_unrestricted_misc", {}))
    return out
