"""C09 - dumping never alters the caller's data; conversions are explicit and equivalent."""

from __future__ import annotations

from harness import c02
from symx.runner import job

META = dict(
    bounds=dict(quick="dump_one of the 7 geometry/grid/integral formats on the C02 object menus: a deep snapshot of every "
                      "attribute (array contents as terms, dictionary structure, identities of members) is equal before and "
                      "after the call for all symbolic values; the call returns the very object; write_input (gaussian, "
                      "orca) likewise; wavefunction formats with allow_changes: see jobs wfn-*",
                thorough="as C02 thorough"),
    outside=["objects outside the menus", "QCSchema extra dictionaries (job json-provenance)"],
    assumptions=c02.META["assumptions"],
    explanation="snapshots as terms around the real dump calls",
)


def h_write_input_untouched(ctx, program="gaussian"):
    import numpy as np
    import iodata.api as api
    from iodata.iodata import IOData
    from harness import rt
    from symx.stubs import stubbed
    import iodata.inputs.common as common
    import iodata.inputs.gaussian as g
    import iodata.inputs.orca as o
    import iodata.attrutils as A
    import iodata.iodata as I
    with stubbed(api, common, g, o, A, I):
        c = ctx.real_array("x", (2, 3), lo=-90, hi=90)
        data = IOData(atnums=np.array([8, 1]), atcoords=c, charge=ctx.real("q", lo=-3, hi=3), spinpol=ctx.real("s", lo=0, hi=3),
                      title="t", extra={"nested": {"a": [1, 2, {"b": 3}]}})
        data.atcorenums
        before = rt.snapshot(ctx, data)
        api.write_input(data, ctx.tmp_path("in.com"), fmt=program)
        after = rt.snapshot(ctx, data)
        for where, f in rt.snap_equal(ctx, before, after, "data"):
            ctx.oblige("write_input-leaves-argument-unchanged", f, cls=f"{program}:{where}")


def jobs(tier):
    out = [j for j in c02.jobs(tier, prop="C09") if "twin" not in j["name"] and "touch" not in j["name"]]
    for p in ("gaussian", "orca"):
        out.append(job("C09", f"write_input-untouched[{p}]", "harness.c09", "h_write_input_untouched", dict(program=p)))
    return out
