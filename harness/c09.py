"""C09 - dumping never alters the caller's data; conversions are explicit and equivalent."""

from __future__ import annotations

from harness import c02
from symx.runner import job

META = dict(
    bounds=dict(quick="dump_one of all 13 read/write formats on the C02 object menus (sizes <= 1000 atoms): a deep snapshot of every "
                      "attribute (array contents as terms, dictionary structure, identities of members) is equal before and "
                      "after the call for all symbolic values; the call returns the very object; write_input (gaussian, "
                      "orca) likewise; wavefunction formats with allow_changes: see jobs wf-conversion; the five wavefunction "
                      "writers on objects with three density matrices whose conventions need a pure sign change, a re-ordering "
                      "or both (Cartesian and pure d; Cartesian f in thorough): two dumps in a row leave the argument "
                      "unchanged and write the same file",
                thorough="as C02 thorough"),
    outside=["objects outside the menus", "QCSchema extra dictionaries (job json-provenance)"],
    assumptions=c02.META["assumptions"],
    explanation="snapshots as terms around the real dump calls",
)


def h_write_input_untouched(ctx, program="gaussian"):
    import numpy as np
    import iodata.api as api
    from iodata.iodata import IOData
    from harness import rt
    from symx.stubs import stubbed
    import iodata.inputs.common as common
    import iodata.inputs.gaussian as g
    import iodata.inputs.orca as o
    import iodata.attrutils as A
    import iodata.iodata as I
    with stubbed(api, common, g, o, A, I):
        c = ctx.real_array("x", (2, 3), lo=-90, hi=90)
        data = IOData(atnums=np.array([8, 1]), atcoords=c, charge=ctx.real("q", lo=-3, hi=3), spinpol=ctx.real("s", lo=0, hi=3),
                      title="t", extra={"nested": {"a": [1, 2, {"b": 3}]}})
        data.atcorenums
        before = rt.snapshot(ctx, data)
        api.write_input(data, ctx.tmp_path("in.com"), fmt=program)
        after = rt.snapshot(ctx, data)
        for where, f in rt.snap_equal(ctx, before, after, "data"):
            ctx.oblige("write_input-leaves-argument-unchanged", f, cls=f"{program}:{where}")


def h_json_untouched(ctx, fn="LiCl_STO4G_Gaussian_input.json", ndump=2):
    """QCSchema: dumping (repeatedly) leaves the caller's object, incl. nested lists/dicts in extra, unchanged."""
    import os
    import warnings
    import iodata.api as api
    from harness import rt
    from symx import corpus
    from symx.stubs import stubbed
    mods = rt._fmt_modules("json_qcschema")
    text = open(os.path.join(os.path.dirname(api.__file__), "test", "data", fn)).read()
    with stubbed(*mods):
        t2, _ = corpus.tokenise(text, min_decimals=3, max_tokens=400)
        p0 = ctx.tmp_path("in.json")
        ctx.write_text(p0, t2)
        with warnings.catch_warnings(record=True):
            warnings.simplefilter("always")
            data = api.load_one(p0, fmt="json_qcschema")
            data.atcorenums
            before = rt.snapshot(ctx, data)
            for k in range(ndump):
                ret = api.dump_one(data, ctx.tmp_path(f"out{k}.json"), fmt="json_qcschema")
        after = rt.snapshot(ctx, data)
        for where, f in rt.snap_equal(ctx, before, after, "data"):
            ctx.oblige("dump-leaves-argument-unchanged", f, cls=f"json,{fn}:{where[:70]}")
        ctx.oblige("dump-returns-the-very-object", ret is data, cls=f"json,{fn}")


def h_wf_conversion(ctx, fmt="wfn", case="aminusb"):
    """Wavefunction formats: conversions are explicit (warning / error) and the converted object is equivalent."""
    import warnings
    import iodata.api as api
    from iodata.iodata import IOData
    from iodata.utils import DumpError, PrepareDumpError, PrepareDumpWarning
    from harness import c01, rt, wfobj
    from symx.stubs import stubbed
    mods = rt._fmt_modules(fmt)
    allow = ctx.choice([False, True], label="allow_changes")
    shells = {"generalized": c01.SHELLSETS["gen"], "SP": c01.SHELLSETS["SP"]}.get(case, c01.SHELLSETS["sp"])
    occ = case if case.startswith("aminusb") else "closed"
    with stubbed(*mods):
        kw = wfobj.make_wf(ctx, c01.ATOMS, shells, conv="horton2", mo_kind="restricted", norb=2, occ=occ)
        data = IOData(**kw)
        data.atcorenums
        src = c01.semantic(ctx, data)
        before = rt.snapshot(ctx, data)
        path = ctx.tmp_path(c01.FILENAMES[fmt])
        with warnings.catch_warnings(record=True) as wl:
            warnings.simplefilter("always")
            try:
                ret = api.dump_one(data, path, allow_changes=allow)
                err = None
            except (PrepareDumpError, DumpError) as e:
                ret, err = None, e
        warned = any(issubclass(w.category, PrepareDumpWarning) for w in wl)
        after = rt.snapshot(ctx, data)
        cls = f"{fmt},{case},allow={allow}"
        for where, f in rt.snap_equal(ctx, before, after, "data"):
            ctx.oblige("dump-leaves-argument-unchanged", f, cls=f"{cls}:{where.split('.')[1] if '.' in where else where}")
        # what the format cannot express (documented): occs_aminusb; generalized contractions (FCHK keeps SP shells)
        needs = case.startswith("aminusb") or case == "generalized" or (case == "SP" and fmt != "fchk")
        if fmt == "fchk" and case.startswith("aminusb"):
            ctx.oblige("incompatible-object-refused", isinstance(err, PrepareDumpError), cls=cls, detail=str(err))
            return
        if not allow:
            if needs:
                ctx.oblige("conversion-needs-allow_changes", isinstance(err, PrepareDumpError), cls=cls,
                           detail=f"err={err} returned-same-object={ret is data}")
            else:
                ctx.oblige("compatible-object-written-as-is", err is None and ret is data and not warned, cls=cls, detail=str(err))
            return
        ctx.oblige("allowed-conversion-succeeds", err is None, cls=cls, detail=str(err))
        if err is not None:
            return
        if needs:
            ctx.oblige("conversion-is-announced-and-returns-a-new-object", warned and ret is not data, cls=cls,
                       detail=f"warned={warned} same-object={ret is data}")
        else:
            ctx.oblige("no-conversion-no-warning", ret is data and not warned, cls=cls)
        dst = c01.semantic(ctx, ret)
        for label, f, where in c01.same_orbitals(ctx, src, dst):
            ctx.oblige("converted-object-equivalent:" + label, f, cls=cls, detail=where)
        ctx.oblige("converted-object:nelec-and-spinpol", ctx.eq(ret.nelec, data.nelec) and ctx.eq(ret.spinpol, data.spinpol), cls=cls)


def h_wf_untouched(ctx, fmt="fchk", conv="flip:fchk", shellset="dpure"):
    import numpy as np
    """A wavefunction with density matrices in a convention that the writer must convert (pure sign change, re-ordering, both):
    two dumps in a row leave every array of the caller unchanged and write the same file."""
    import warnings
    import iodata.api as api
    from iodata.iodata import IOData
    from iodata.utils import DumpError, PrepareDumpError
    from harness import c01, rt, wfobj
    from symx.stubs import stubbed
    mods = rt._fmt_modules(fmt)
    shells = c01.SHELLSETS[shellset]
    nb = wfobj.nbasis_of(shells)
    with stubbed(*mods):
        grid = np.array([[0.1 * (i + 1) * (j + 1) - 0.05 * (i + j) ** 2 + (0.7 if i == j else 0.0) for j in range(nb)]
                         for i in range(nb)])
        rdms = {"scf": grid.copy(), "scf_spin": 0.25 * grid[::-1, ::-1].copy(), "post_scf_ao": 1.5 * grid.copy()}
        kw = wfobj.make_wf(ctx, c01.ATOMS, shells, conv=conv, mo_kind="restricted", norb=2, occ="closed",
                           extra_kw=dict(one_rdms=rdms))
        data = IOData(**kw)
        data.atcorenums
        before = rt.snapshot(ctx, data)
        texts = []
        cls = f"{fmt},{conv},{shellset}"
        for rep in (1, 2):
            path = ctx.tmp_path(f"r{rep}." + c01.FILENAMES[fmt])
            with warnings.catch_warnings(record=True):
                warnings.simplefilter("always")
                try:
                    api.dump_one(data, path)
                    err = None
                except (PrepareDumpError, DumpError) as e:
                    err = e
            after = rt.snapshot(ctx, data)
            for where, f in rt.snap_equal(ctx, before, after, "data"):
                ctx.oblige("dump-leaves-argument-unchanged", f,
                           cls=f"{cls},dump{rep}:{where.split('.')[1] if '.' in where else where}")
            if err is not None:
                return
            texts.append(ctx.read_text(path))
        ctx.oblige("second-dump-writes-the-same-file", rt._text_equal(ctx, texts[0], texts[1]), cls=cls)


def jobs(tier):
    out = [j for j in c02.jobs(tier, prop="C09") if "twin" not in j["name"] and "touch" not in j["name"]
           and (tier != "quick" or j["params"].get("natom", 0) <= 1000)]
    for fmt in ("fchk", "molden", "molekel", "wfn", "wfx"):
        for case in ("plain", "aminusb", "aminusb-zero", "generalized", "SP"):
            out.append(job("C09", f"wf-conversion[{fmt},{case}]", "harness.c09", "h_wf_conversion", dict(fmt=fmt, case=case),
                           max_validate=4))
    for fmt in ("fchk", "molden", "molekel", "wfn", "wfx"):
        base = {"molekel": "molden", "wfx": "wfn"}.get(fmt, fmt)
        for conv in ("flip:" + base, "partflip", "revflip"):
            for shellset in ("dcart",) + (("dpure",) if fmt not in ("wfn", "wfx") else ()) + (("fcart",) if tier == "thorough" else ()):
                out.append(job("C09", f"wf-untouched[{fmt},{conv},{shellset}]", "harness.c09", "h_wf_untouched",
                               dict(fmt=fmt, conv=conv, shellset=shellset), max_validate=2))
    for fn in ("LiCl_STO4G_Gaussian_input.json", "H2O_CCSDprTpr_STO3G_output.json", "CuSCN_molecule_extra.json", "water_full.json"):
        out.append(job("C09", f"json-untouched[{fn}]", "harness.c09", "h_json_untouched", dict(fn=fn), max_validate=1))
    for p in ("gaussian", "orca"):
        out.append(job("C09", f"write_input-untouched[{p}]", "harness.c09", "h_write_input_untouched", dict(program=p)))
    return out
