"""C02 - save-then-reload returns the same data for every read/write format."""

from __future__ import annotations

from symx.runner import job

META = dict(
    bounds=dict(
        quick="formats xyz (default and user-defined atom columns), pdb, mol2, sdf, poscar (lower-triangular cell), cube "
              "(grids 1x1x1, 2x3x4, 1x1x7), fcidump (n=1,2; 8-fold symmetric non-zero integrals); 1-3 atoms fully symbolic "
              "and boundary sizes (100, 1000, 10000/12000 atoms where a counter fills its column) with two symbolic probe "
              "atoms and concrete filler; element pairs from {1,8},{2,118},{10,11},{99,100},{6,17}; optional attributes "
              "absent / all present; bonds incl. one touching the last atom, each bond type; one field per record may "
              "fill its column (width-class fork, budget 1); titles present/absent",
        thorough="adds poscar with a full symbolic 3x3 cell (NRA), more sizes, width budget 2, fcidump n=3"),
    outside=["values that overflow their column", "binary cube files", "float rounding of the printed digits (values travel "
             "as exact terms)", "wavefunction formats (fchk, molden, molekel, wfn, wfx) are covered by the C01 harnesses; "
             "QCSchema JSON: see jobs json-*"],
    assumptions=["numbers travel through text as placeholder tokens of the exact printed width (symx.tokens)",
                 "in-memory files replace open() in iodata.api / iodata.utils", "exact real arithmetic",
                 "FCIDUMP: integrals assumed non-zero (the writer skips zeros by design)"],
    explanation="symbolic execution of api.dump_one followed by api.load_one on the written text",
)

SIZES = dict(fchk=[2], xyz=[1, 3, 1000], pdb=[1, 3, 1000, 12000], mol2=[1, 3, 1000], sdf=[1, 3, 100, 999], poscar=[1, 3, 12],
             cube=[1, 2], fcidump=[1, 2])
VARIANTS = dict(fchk=["wf-own", "wf-horton2", "wf-revflip", "uhf", "rohf", "post", "corenums", "bare", "geom", "nomo"], xyz=["default", "columns"], pdb=["default", "full", "bonds", "star"], mol2=["default", "full", "bonds"],
                sdf=["default", "bonds"], poscar=["lower"], cube=["111", "234", "117"], fcidump=["sym"])


def jobs(tier, prop="C02", M="harness.rt"):
    out = []
    for fmt in SIZES:
        for variant in VARIANTS[fmt] + (["full3x3"] if fmt == "poscar" and tier == "thorough" else []):
            for n in SIZES[fmt] + ([3] if fmt == "fcidump" and tier == "thorough" else []):
                if n >= 100 and variant not in ("default", "bonds", "lower"):
                    continue
                if variant == "star" and n != 3:
                    continue
                for policy in ("fit", "touch"):
                    if policy == "touch" and (n > 3 or fmt in ("fcidump", "fchk")):
                        continue
                    if variant == "star":
                        n = 14
                    out.append(job(prop, f"roundtrip[{fmt},{variant},n={n},{policy}]", M, "h_roundtrip",
                                   dict(fmt=fmt, natom=n, variant=variant, prop=prop, policy=policy),
                                   budget_s=400 if tier == "quick" else 3000, max_validate=4 if n < 100 else 1))
    out.append(job(prop, "roundtrip[twin]", M, "h_roundtrip", dict(fmt="xyz", natom=1, prop=prop, twin=True),
                   expect="cex", max_validate=0))
    return out
