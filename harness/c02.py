"""C02 - save-then-reload returns the same data for every read/write format."""

from __future__ import annotations

from symx.runner import job

META = dict(
    bounds=dict(
        quick="formats xyz (default and user-defined atom columns), pdb, mol2, sdf, poscar (lower-triangular cell), cube "
              "(grids 1x1x1, 2x3x4 - also in column-major memory order and as a transposed view -, 1x1x7), fcidump (n=1,2; 8-fold symmetric non-zero integrals); 1-3 atoms fully symbolic "
              "and boundary sizes (100, 1000, 10000/12000 atoms where a counter fills its column) with two symbolic probe "
              "atoms and concrete filler; element pairs from {1,8},{2,118},{10,11},{99,100},{6,17} (one job per "
              "topology format with every element 1..118); optional attributes "
              "absent / all present; bonds incl. one touching the last atom, each bond type; one field per record may "
              "fill its column (width-class fork, budget 1); titles present/absent; "
              "fchk (2 atoms, d+s shells; six kinds of atomic charges, masses, gradient, Hessian, dipole, quadrupole, "
              "polarizability, scf/spin/post-SCF density matrices as bilinear forms, run types, title/lot/basis name, "
              "restricted/ROHF/unrestricted, conventions FCHK/HORTON2/reversed+flipped, objects without orbitals or "
              "without basis); wfn, wfx (energy, virial ratios, gradient, model, keywords, core charges), molden "
              "(title, core charges), molekel (Mulliken charges present/absent), each restricted and unrestricted; Molden with pure d + Cartesian f and the reverse; WFN/WFX with Cartesian h functions; WFN with one fixed-point field filling its column; "
              "QCSchema molecule (charge, multiplicity, masses, connectivity, ghost atom, fragments, passthrough keys)",
        thorough="adds poscar with a full symbolic 3x3 cell (NRA), more sizes, width budget 2, fcidump n=3"),
    outside=["values that overflow their column", "binary cube files", "float rounding of the printed digits (values travel "
             "as exact terms)", "wavefunction formats: shell sets beyond s/p/d with one or two primitives (C01 varies those); QCSchema "
             "input/output schemas (C15 json-cycles on the corpus)", "lot/basis-name capitalisation (FCHK upper-cases on "
             "writing and lower-cases on reading: lower-case names are used)", "an absent energy in WFN/WFX comes back as NaN "
             "(the formats have a mandatory energy field; the writer documents NaN as 'not available')"],
    assumptions=["numbers travel through text as placeholder tokens of the exact printed width (symx.tokens)",
                 "in-memory files replace open() in iodata.api / iodata.utils", "exact real arithmetic",
                 "FCIDUMP: integrals assumed non-zero (the writer skips zeros by design)"],
    explanation="symbolic execution of api.dump_one followed by api.load_one on the written text",
)

SIZES = dict(json=[1, 3], wfn=[2], wfx=[2], molden=[2], molekel=[2], fchk=[2], xyz=[1, 3, 1000], pdb=[1, 3, 1000, 12000], mol2=[1, 3, 1000], sdf=[1, 3, 100, 999], poscar=[1, 3, 12],
             cube=[1, 2], fcidump=[1, 2])
VARIANTS = dict(json=["full", "bare"], wfn=["full", "bare", "uhf", "unsorted", "hcart"], wfx=["full", "bare", "uhf", "ecp", "unsorted", "hcart"], molden=["full", "bare", "uhf", "ecp", "unsorted", "dpfc", "dcfp"], molekel=["full", "bare", "uhf", "unsorted"], fchk=["wf-own", "wf-horton2", "wf-revflip", "uhf", "rohf", "post", "corenums", "bare", "geom", "nomo", "lotblank"], xyz=["default", "columns"], pdb=["default", "full", "bonds", "star"], mol2=["default", "full", "bonds"],
                sdf=["default", "bonds"], poscar=["lower"], cube=["111", "234", "117", "234F", "234T"], fcidump=["sym"])


def jobs(tier, prop="C02", M="harness.rt"):
    out = []
    for fmt in SIZES:
        for variant in VARIANTS[fmt] + (["full3x3"] if fmt == "poscar" and tier == "thorough" else []):
            for n in SIZES[fmt] + ([3] if fmt == "fcidump" and tier == "thorough" else []):
                if n >= 100 and variant not in ("default", "bonds", "lower"):
                    continue
                if variant == "star" and n != 3:
                    continue
                for policy in ("fit", "touch"):
                    if policy == "touch" and (n > 3 or fmt in ("fcidump", "fchk", "json", "wfx", "molden", "molekel")
                                              or (fmt == "wfn" and variant != "full")):
                        continue            # (WFN has fixed-point fields - coordinates, charges, occupations, orbital energies)
                    if variant == "star":
                        n = 14
                    out.append(job(prop, f"roundtrip[{fmt},{variant},n={n},{policy}]", M, "h_roundtrip",
                                   dict(fmt=fmt, natom=n, variant=variant, prop=prop, policy=policy),
                                   budget_s=400 if tier == "quick" else 3000, max_validate=4 if n < 100 else 1))
    if prop == "C02":
        # the element tables of iodata.periodic: every element through every topology format that writes symbols
        for fmt, var in (("xyz", "default"), ("pdb", "default"), ("mol2", "default"), ("sdf", "default"), ("poscar", "lower"), ("cube", "111")):
            out.append(job(prop, f"roundtrip[{fmt},{var},every-element]", M, "h_roundtrip",
                           dict(fmt=fmt, natom=2, variant=var + "+elements", prop=prop, policy="fit"), budget_s=400, max_validate=4,
                           max_paths=400))
    out.append(job(prop, "roundtrip[twin]", M, "h_roundtrip", dict(fmt="xyz", natom=1, prop=prop, twin=True),
                   expect="cex", max_validate=0))
    return out
