"""C05 - Molden/Molekel files from quirky programs load as the true wavefunction."""

from __future__ import annotations

import math
import warnings

import numpy as np

from specs import basisfun as BF
from symx import core
from symx.core import And, Not, Or, Sym
from symx.runner import job
from symx.stubs import stubbed

META = dict(
    bounds=dict(
        quick="one centre, one-primitive shells (s, p, Cartesian d/f, pure d/f/g/h), orbitals = the normalised basis functions "
              "themselves; encodings: standard, ORCA, PSI4 <= 1.0, Turbomole, CFOUR 2.1, unnormalised contractions, "
              "PSI4 <= 1.3.2, and a corrupted one (factor 2 on one shell); exponents symbolic (all reals in [0.2, 30]) for "
              "the s/p cases, from a rational grid otherwise; norm_threshold 1e-4, and 1e-2 with orbitals scaled by a symbolic factor s with |s^2 - 1| <= threshold (every "
              "branch must honour the caller's threshold); restricted and "
              "unrestricted (beta orbitals = the alpha ones in reverse order, both channels compared); the real _fix_molden_from_buggy_codes (with compute_overlap and the _fix_* helpers) runs on "
              "the terms; Molden and Molekel readers share this function",
        thorough="adds the ORCA encoding with s and p shells together, both exponents symbolic, and the thresholds 1e-5 / 1e-3 for "
                 "every grid case"),
    outside=["multi-centre molecules and contracted shells through the cascade (exp of symbolic distances in branch "
             "conditions)", "the vendor table itself is transcribed from the comments and upstream issues quoted in molden.py - "
             "there is no independent public specification of these deviations", "unit/kind tags of the file header "
             "(C04 molden-units, C01 reload)"],
    assumptions=["exact reals; sqrt auxiliaries; the norm test has resolution norm_threshold: orbitals are compared up to a "
                 "per-orbital factor k with |k^2-1| <= threshold"],
    explanation="symbolic execution of molden._fix_molden_from_buggy_codes on vendor-encoded one-centre bases",
)

GRID = [0.35, 1.9, 7.25, 0.8, 3.1]
ORCA_PW = {0: (0, 0, 0), 1: (1, 0, 0), 2: (1, 1, 0), 3: (1, 1, 1), 4: (2, 1, 1), 5: (5, 0, 0)}


def _nfun(l, kind):
    return (l + 1) * (l + 2) // 2 if kind == "c" else 2 * l + 1


def _encode(vendor, shells, exps):
    """Per shell: factor on the contraction coefficient; per basis function: factor/sign on MO coefficients."""
    dfac, cfac = [], []
    for (l, kind), a in zip(shells, exps):
        f = 1.0
        n = _nfun(l, kind)
        c = [1.0] * n
        if vendor == "orca":
            if l <= 1 or kind == "p":
                f = BF.cart_norm(a, ORCA_PW[l])
            if kind == "p" and l in (3, 4, 5):
                # ORCA sign conventions: -c3 -s3 (-c4 -s4) in the order c0 c1 s1 c2 s2 c3 s3 c4 s4 (c5 s5); for h shells the
                # m = +-5 functions keep their sign (Multiwfn manual on ORCA Molden files: F(+-3), G(+-3), G(+-4), H(+-3), H(+-4))
                c = [1.0] * 5 + [-1.0] * (min(n, 9) - 5) + [1.0] * max(0, n - 9)
        elif vendor == "psi4":
            if l <= 1:
                f = BF.cart_norm(a, ORCA_PW[l])
            elif kind == "p" and l == 2:
                f = BF.cart_norm(a, (1, 1, 0)) / math.sqrt(3.0)
            elif kind == "p" and l == 3:
                f = BF.cart_norm(a, (1, 1, 1)) / math.sqrt(15.0)
        elif vendor == "turbomole":
            if kind == "c" and l in (2, 3, 4):
                f = 1.0 / math.sqrt({2: 3.0, 3: 15.0, 4: 105.0}[l])
        elif vendor == "cfour":
            if kind == "c" and l == 2:
                c = [1 / math.sqrt(3)] * 3 + [1.0] * 3
            elif kind == "c" and l == 3:
                c = [1 / math.sqrt(15)] * 3 + [1 / math.sqrt(3)] * 6 + [1.0]
        elif vendor == "unnormalized":
            f = 1.7
        elif vendor == "psi4-1.3.2":
            f = 2.3
            if kind == "c" and l == 2:
                c = [1.0] * 3 + [math.sqrt(3)] * 3
            elif kind == "c" and l == 3:
                c = [1.0] * 3 + [math.sqrt(5)] * 6 + [math.sqrt(15)]
        elif vendor == "corrupt":
            # an orbital whose coefficients are off by a factor 2: no basis-set correction can repair its norm
            if (l, kind) == shells[-1]:
                c = [2.0] + [1.0] * (n - 1)
        dfac.append(f)
        cfac.extend(c)
    return dfac, cfac


EXPECT = {"standard": None, "orca": "ORCA", "psi4": "PSI4 < 1.0", "turbomole": "Turbomole", "cfour": "CFOUR",
          "unnormalized": "unnormalized contractions", "psi4-1.3.2": "PSI4 <= 1.3.2", "corrupt": "LoadError"}


def h_cascade(ctx, vendor="orca", shells=((0, "c"), (1, "c")), symbolic=True, thr=1e-4, kind="restricted", twin=False, scaled=False):
    import iodata.attrutils as A
    import iodata.basis as B
    import iodata.convert as C
    import iodata.formats.molden as M
    import iodata.orbitals as O
    import iodata.overlap as OV
    import iodata.utils as U
    shells = [tuple(s) for s in shells]
    with stubbed(M, OV, C, B, A, O):
        if symbolic:
            exps = [ctx.real(f"a{i}", lo=0.2, hi=30.0, default=GRID[i % len(GRID)]) for i in range(len(shells))]
            for e in exps:
                ctx.declare_reciprocal(e, None)
        else:
            exps = [GRID[i % len(GRID)] for i in range(len(shells))]
        dfac, cfac = _encode(vendor, shells, exps)
        nb = sum(_nfun(l, k) for l, k in shells)
        file_shells = [B.Shell(0, [l], [k], [a], [[f]]) for (l, k), a, f in zip(shells, exps, dfac)]
        true_shells = [dict(icenter=0, angmoms=[l], kinds=[k], exponents=[a], coeffs=[[1.0]]) for (l, k), a in zip(shells, exps)]
        ob = B.MolecularBasis(file_shells, M.CONVENTIONS, "L2")
        cmat = np.zeros((nb, nb), dtype=object if ctx.mode == "sym" else float)
        sc = 1.0
        if scaled:
            # orbitals that are normalised only to within the caller's threshold (low-precision files): |sc^2 - 1| <= thr
            sc = ctx.real("scale", lo=0.9, hi=1.1, default=1.0 + 0.3 * thr)
            ctx.assume(And(sc * sc - 1.0 <= 0.999 * thr, 1.0 - sc * sc <= 0.999 * thr))
        for i in range(nb):
            cmat[i, i] = cfac[i] * sc
        if kind == "restricted":
            mo = O.MolecularOrbitals("restricted", nb, nb, np.array([2.0] + [0.0] * (nb - 1)), cmat, np.arange(nb, dtype=float))
        else:
            # beta orbitals differ from the alpha ones: the same functions in reverse order
            mo = O.MolecularOrbitals("unrestricted", nb, nb, np.array(([1.0] + [0.0] * (nb - 1)) * 2),
                                     np.hstack([cmat, cmat[:, ::-1]]), np.arange(2 * nb, dtype=float))
        result = {"obasis": ob, "atcoords": np.zeros((1, 3)), "mo": mo}
        lit = U.LineIterator("vendor.molden")
        with warnings.catch_warnings(record=True) as wl:
            warnings.simplefilter("always")
            try:
                M._fix_molden_from_buggy_codes(result, lit, thr)
                err = None
            except U.LoadError as e:
                err = e
        msgs = [str(w.message) for w in wl if issubclass(w.category, U.LoadWarning)]
        cls = f"{vendor},{'+'.join(f'{l}{k}' for l, k in shells)},thr={thr},{kind}" + (",scaled" if scaled else "")
        want = EXPECT[vendor]
        if twin:
            want = "Turbomole"
        if want == "LoadError":
            ctx.oblige("unrecognised-encoding-is-rejected", err is not None, cls=cls, detail=str(msgs))
            return
        # an encoded file that happens to be normalised within the threshold as it stands is accepted uncorrected
        # (the documented norm test cannot tell it from a standard file): the semantic obligation below still applies
        ctx.oblige("known-encoding-is-loaded", err is None, cls=cls, detail=str(err))
        if err is not None:
            return
        if want is None:
            ctx.oblige("standard-file-loads-without-correction", not msgs and result["obasis"] is ob, cls=cls, detail=str(msgs))
        elif msgs:
            # for files with s and p shells only the ORCA and PSI4 <= 1.0 encodings coincide
            alias = "ORCA" if vendor == "psi4" and all(l <= 1 for l, _ in shells) else want
            ctx.oblige("warning-names-the-correction", len(msgs) == 1 and (want in msgs[0] or alias in msgs[0]), cls=cls,
                       detail=str(msgs))
        # the returned basis/coefficients denote the true orbitals up to the resolution of the norm test
        rob = result["obasis"]
        funcs = BF.basis_functions(BF.shells_of(rob), rob.conventions)
        tfuncs = BF.basis_functions(true_shells, M.CONVENTIONS)
        channels = [("alpha", result["mo"].coeffsa, list(range(nb)))]
        if kind == "unrestricted":
            channels.append(("beta", result["mo"].coeffsb, list(range(nb))[::-1]))
        for spin, co, which in channels:
          for i in range(nb):
            got = BF.combine(list(co[:, i]), funcs)
            ref = tfuncs[which[i]]
            keys = set(got) | set(ref)
            parts = []
            for key in keys:
                g, r = got.get(key, 0.0), ref.get(key, 0.0)
                if isinstance(r, float) and r == 0.0:
                    parts.append(ctx.near(g, 0.0, 1e-9))
                else:
                    # |k^2 - 1| <= thr  with k = g / r  (r = +-1)
                    k2 = g * g
                    parts.append(And(k2 - 1.0 <= thr * 1.0000001, 1.0 - k2 <= thr * 1.0000001, g * r > 0))
            ctx.oblige("loaded-orbital-is-the-true-orbital", And(*parts), cls=cls, detail=f"{spin} orbital {i}", timeout_ms=60000)


def jobs(tier):
    Mn = "harness.c05"
    out = []
    cases = [
        ("standard", ((0, "c"), (1, "c")), True), ("orca", ((0, "c"),), True), ("orca", ((1, "c"),), True),
        ("psi4", ((1, "c"),), True),
        ("standard", ((0, "c"), (1, "c"), (2, "p"), (3, "p")), False), ("standard", ((2, "c"), (3, "c")), False),
        ("orca", ((0, "c"), (1, "c"), (2, "p"), (3, "p"), (4, "p")), False), ("psi4", ((0, "c"), (2, "p"), (3, "p")), False),
        ("orca", ((0, "c"), (5, "p")), False), ("standard", ((0, "c"), (5, "p")), False),
        ("turbomole", ((0, "c"), (2, "c"), (3, "c")), False), ("cfour", ((0, "c"), (2, "c"), (3, "c")), False),
        ("unnormalized", ((0, "c"), (1, "c"), (2, "p")), False), ("psi4-1.3.2", ((0, "c"), (2, "c")), False),
        ("corrupt", ((0, "c"), (1, "c")), False), ("corrupt", ((0, "c"), (2, "p")), False),
    ]
    if tier == "thorough":
        cases.append(("orca", ((0, "c"), (1, "c")), True))
    for vendor, shells, symbolic in cases:
        thrs = (1e-4,) if (tier == "quick" or symbolic) else (1e-5, 1e-4, 1e-3)
        for thr in thrs:
            for kind in ("restricted",) + (("unrestricted",) if not symbolic and vendor != "corrupt" else ()):
                name = f"cascade[{vendor},{'+'.join(f'{l}{k}' for l, k in shells)},{'sym' if symbolic else 'grid'},thr={thr},{kind}]"
                out.append(job("C05", name, Mn, "h_cascade",
                               dict(vendor=vendor, shells=[list(s) for s in shells], symbolic=symbolic, thr=thr, kind=kind),
                               budget_s=400 if tier == "quick" else 3000, max_validate=3, oblige_timeout_ms=60000,
                               branch_timeout_ms=15000))
    # orbitals normalised only to within a non-default threshold (every vendor branch must honour the caller's threshold)
    for vendor, shells, symbolic in cases:
        if symbolic or vendor == "corrupt":
            continue
        for thr in (1e-2,) + ((1e-3,) if tier == "thorough" else ()):
            name = f"cascade-scaled[{vendor},{'+'.join(f'{l}{k}' for l, k in shells)},thr={thr}]"
            out.append(job("C05", name, Mn, "h_cascade",
                           dict(vendor=vendor, shells=[list(s) for s in shells], symbolic=False, thr=thr, kind="restricted", scaled=True),
                           budget_s=400 if tier == "quick" else 3000, max_validate=3, oblige_timeout_ms=60000, branch_timeout_ms=15000))
    out.append(job("C05", "cascade[twin]", Mn, "h_cascade",
                   dict(vendor="orca", shells=[[0, "c"], [1, "c"]], symbolic=False, twin=True), expect="cex", max_validate=0))
    return out
