"""C07 - loading any file content ends in a valid object or a LoadError, nothing else."""

from __future__ import annotations

import os
import types
import warnings

import numpy as np

from harness import rt
from symx import core, corpus
from symx.core import Sym
from symx.runner import job
from symx.stubs import stubbed

META = dict(
    bounds=dict(
        quick="(funnel) api.load_one / load_many with the format module replaced by a nondeterministic stub that reads 0..2 "
              "lines and then returns a valid / shape-inconsistent dict, yields 0..2 frames, or raises one of 11 exception "
              "kinds, inside and outside a generator; consumers that exhaust, break and close(). (parsers) tokenised "
              "fixture files of 20 formats (numbers symbolic) and the generated files of the C02 writers, with a "
              "nondeterministic end of file at every line boundary and with one numeric field replaced by a malformed "
              "text (non-numeric, empty, absurdly large count); a cut inside a line (prefix of 1 character, 25 / 50 / 60 / 70 / 80 / 90 % and all but "
              "the last character; 3 positions for fixtures longer than 30 lines) and one deleted / duplicated / swapped / blanked / commented-out ('# ') line or an inserted blank line, both at 10 line positions (every line of one 6-atom FCHK fixture with partly filled array lines) spread over the "
              "file; one integer field of the first 400 lines (counts first: integers on lines with '=' or alone on a line; 10 fields) replaced by n-2, n+2 or 10n+3; content that is not text (every byte >= 0x80; one "
              "undecodable byte at four offsets) as a real file; explicit and name-derived format selection; when a LoadError gives a line number it equals an "
              "independent count of the lines handed out minus the lines pushed back",
        thorough="the first 400 lines of every fixture (quick: 60): a cut at each of these line boundaries, in-line cuts and line "
                 "mutations at every line instead of 10 sampled ones"),
    outside=["character substitutions outside numeric fields other than one undecodable byte, mutations of several lines at once; a number cut "
             "in the middle is modelled as an unconstrained other number (over-approximation; confirmed by replay)",
             "unbounded termination (a step budget bounds every path)", "the full 11 MB corpus at every cut point"],
    assumptions=["in-memory files; numbers of fixtures as tokens; consistency checks inside readers may reject symbolic "
                 "numbers (such paths end in LoadError, which is an allowed outcome)"],
    explanation="symbolic exploration of the real loaders under a line-boundary truncation / single-field corruption fault model",
)


def _consistent(d):
    """Mutually consistent shapes of a returned object (the constructor validates most of this)."""
    n = d.natom
    for name, ncol in (("atcoords", 3), ("atgradient", 3), ("atmasses", None), ("atnums", None), ("atcorenums", None), ("atfrozen", None)):
        v = getattr(d, name)
        if v is None:
            continue
        if len(v) != n or (ncol is not None and (v.ndim != 2 or v.shape[1] != ncol)):
            return False, name
    # per-atom arrays kept in dictionaries (documented as one entry per atom)
    for dname, keys in (("atcharges", None), ("atffparams", None), ("extra", ("occupancies", "bfactors", "chainids", "velocities", "forces"))):
        dct = getattr(d, dname) or {}
        for k, v in dct.items():
            if keys is not None and k not in keys:
                continue
            if isinstance(v, np.ndarray) and n is not None and (v.ndim == 0 or len(v) != n):
                return False, f"{dname}[{k!r}] has {v.shape} for {n} atoms"
            if isinstance(v, (list, tuple)) and n is not None and len(v) != n:      # (the MOL2 reader returns a tuple of types)
                return False, f"{dname}[{k!r}] has {len(v)} entries for {n} atoms"
    # integrals over one basis: square matrices / four-index arrays of one common size
    sizes = set()
    for k, v in (d.one_ints or {}).items():
        if isinstance(v, np.ndarray):
            if v.ndim != 2 or v.shape[0] != v.shape[1]:
                return False, f"one_ints[{k!r}] has shape {v.shape}"
            sizes.add(v.shape[0])
    for k, v in (d.two_ints or {}).items():
        if isinstance(v, np.ndarray):
            if v.ndim != 4 or len(set(v.shape)) != 1:
                return False, f"two_ints[{k!r}] has shape {v.shape}"
            sizes.add(v.shape[0])
    if len(sizes) > 1:
        return False, f"integral arrays of different basis sizes {sorted(sizes)}"
    if d.athessian is not None and n is not None and d.athessian.shape != (3 * n, 3 * n):
        return False, "athessian"
    if d.mo is not None and d.obasis is not None and d.mo.coeffs is not None:
        nb = d.obasis.nbasis
        rows = d.mo.coeffs.shape[0]
        if rows != (2 * nb if d.mo.kind == "generalized" else nb):
            return False, "mo.coeffs vs obasis.nbasis"
    if d.cube is not None and d.cube.data.ndim != 3:
        return False, "cube"
    return True, None


def corpus_is_pua(ch):
    from symx import tokens as T
    return T.is_pua(ch)


def _is_symbolic(a):
    return isinstance(a, np.ndarray) and a.dtype == object and any(isinstance(x, Sym) for x in a.ravel().tolist())


# ------------------------------------------------------------------------------------------ funnel

EXC = ["LoadError", "LoadError-lineno", "StopIteration", "ValueError", "KeyError", "IndexError", "UnicodeDecodeError",
       "AssertionError", "RuntimeError", "ZeroDivisionError", "UserWarning-as-error", "TypeError"]


def _raise(kind, lit, U):
    if kind == "LoadError":
        raise U.LoadError("format problem", lit)
    if kind == "LoadError-lineno":
        raise U.LoadError("format problem", lit.filename, 7)
    if kind == "StopIteration":
        raise StopIteration
    if kind == "UnicodeDecodeError":
        raise UnicodeDecodeError("utf-8", b"\xff", 0, 1, "invalid start byte")
    if kind == "UserWarning-as-error":
        raise UserWarning("turned into an error")
    raise {"ValueError": ValueError, "KeyError": KeyError, "IndexError": IndexError, "AssertionError": AssertionError,
           "RuntimeError": RuntimeError, "ZeroDivisionError": ZeroDivisionError, "TypeError": TypeError}[kind]("boom")


def h_funnel(ctx, many=False):
    import iodata.api as api
    import iodata.utils as U
    nread = ctx.choice([0, 1, 2], label="lines-read")
    behaviour = ctx.choice(["valid", "inconsistent"] + EXC, label="behaviour")
    nyield = ctx.choice([0, 1, 2], label="frames-before") if many else 0
    consumer = ctx.choice(["exhaust", "break-and-close"], label="consumer") if many else "exhaust"
    seen = {}

    def finish(lit):
        seen["lineno"] = lit.lineno
        if behaviour == "valid":
            return {"atnums": np.array([1, 1]), "atcoords": np.zeros((2, 3))}
        if behaviour == "inconsistent":
            return {"atnums": np.array([1, 1]), "atcoords": np.zeros((3, 3))}
        _raise(behaviour, lit, U)

    def load_one(lit, **kw):
        for _ in range(nread):
            next(lit)
        return finish(lit)

    def load_many(lit, **kw):
        for _ in range(nyield):
            yield {"atnums": np.array([1]), "atcoords": np.zeros((1, 3))}
        for _ in range(nread):
            next(lit)
        yield finish(lit)

    fake = types.SimpleNamespace(PATTERNS=["*.fake"], load_one=load_one, load_many=load_many, __name__="iodata.formats.fake")
    path = ctx.tmp_path("data.fake")
    ctx.write_text(path, "line1\nline2\nline3\n")
    api.FORMAT_MODULES["fake"] = fake
    out, err, got = None, None, []
    try:
        with stubbed(api):
            try:
                if many:
                    g = api.load_many(path)
                    for d in g:
                        got.append(d)
                        if consumer == "break-and-close":
                            g.close()
                            break
                else:
                    got.append(api.load_one(path))
                out = "ok"
            except U.LoadError as e:
                out, err = "LoadError", e
            except BaseException as e:
                out, err = type(e).__name__, e
    finally:
        del api.FORMAT_MODULES["fake"]
    cls = f"{'many' if many else 'one'},{behaviour}"
    reached = (not many) or consumer == "exhaust" or nyield == 0
    if behaviour == "valid" or not reached:
        ctx.oblige("valid-data-is-returned", out == "ok", cls=cls, detail=f"{out}: {err}")
    elif behaviour == "StopIteration" and many:
        # a StopIteration escaping a generator is a RuntimeError (PEP 479) -> LoadError; ending silently is also accepted
        ctx.oblige("only-LoadError-escapes", out in ("LoadError", "ok"), cls=cls, detail=f"{out}: {err}")
    else:
        ctx.oblige("only-LoadError-escapes", out == "LoadError", cls=cls, detail=f"{out}: {err}")
        if out == "LoadError":
            msg = str(err)
            ctx.oblige("message-names-the-file", path in msg, cls=cls, detail=msg)
            if behaviour == "LoadError-lineno":
                ctx.oblige("message-keeps-the-given-line-number", f"{path}:7" in msg, cls=cls, detail=msg)
            elif behaviour != "inconsistent" or True:
                ctx.oblige("message-has-the-last-line-read", f"{path}:{seen.get('lineno', nread)}" in msg, cls=cls, detail=msg)
    opened = [e for e in ctx.events if e[0] == "open"]
    closed = [e for e in ctx.events if e[0] == "close"]
    if ctx.mode == "sym":
        ctx.oblige("file-closed-afterwards", len(opened) == 1 and len(closed) == 1, cls=cls, detail=str(ctx.events))


# ------------------------------------------------------------------------------------------ parsers

FIXTURES = [
    ("xyz", "water_element.xyz", False), ("xyz", "water_trajectory.xyz", True), ("pdb", "water_single.pdb", False),
    ("pdb", "ch5plus.pdb", True), ("mol2", "caffeine.mol2", False), ("sdf", "example.sdf", False),
    ("sdf", "formamide.sdf", True), ("gromacs", "water.gro", True), ("charmm", "crambin.crd", False),
    ("poscar", "POSCAR.cubicbn_direct", False), ("cube", "cubegen_h2o_5points.cube", False), ("fcidump", "FCIDUMP.molpro.h2", False),
    ("gamess", "PCGamess_PUNCH.dat", False), ("gaussianinput", "water.com", False), ("wfn", "he_s_orbital.wfn", False),
    ("wfx", "h2_ub3lyp_ccpvtz.wfx", False), ("fchk", "h_sto3g.fchk", False), ("molden", "h2o.molden.input", False),
    ("molekel", "h2_sto3g.mkl", False), ("mwfn", "ch3_rohf_sto3g_g03_fchk_multiwfn3.7.mwfn", False),
    ("extxyz", "mgo.xyz", False), ("orcalog", "water_orca.out", False), ("json_qcschema", "water_full.json", False),
    ("cp2klog", "atom_om2.cp2k.out", False), ("qchemlog", "water_hf_ccpvtz_freq_qchem.out", False),
    ("gaussianlog", "water_sto3g_hf_g03.log", False), ("chgcar", "CHGCAR.oxygen", False), ("locpot", "LOCPOT.oxygen", False),
]


# Molden / Molekel fixtures stay concrete: symbolic coefficients or coordinates make the vendor-detection cascade
# (overlap integrals with exp of symbolic distances; the subject of C05) the dominating cost of every path
ONLY_LINES = {"molden": r"(?!)", "molekel": r"(?!)"}     # regex that matches no line: the fixture stays concrete


def h_parser(ctx, fmt="xyz", fn="water_element.xyz", many=False, fault="truncate", max_lines=400, twin=False, line_samples=None):
    import iodata.api as api
    from iodata.utils import FileFormatError, LoadError
    mods = rt._fmt_modules(fmt if fmt not in ("chgcar", "locpot") else "poscar") + (rt._fmt_modules(fmt) if fmt in ("chgcar", "locpot", "extxyz") else [])
    fpath = os.path.join(os.path.dirname(api.__file__), "test", "data", fn)
    text = open(fpath).read()
    lines = text.splitlines(keepends=True)
    if len(lines) > max_lines:
        # long fixtures: keep the head (headers, first records); the cut is then itself a truncation
        lines = lines[:max_lines]
        text = "".join(lines)
    explicit = ctx.choice([True, False], label="explicit-format") if fmt not in ("json_qcschema",) else True
    import iodata.utils as U

    class CountingLit(U.LineIterator):
        """The real line iterator plus an independent count of lines handed out and pushed back."""

        def __init__(self, filename):
            super().__init__(filename)
            self.handed_out = 0
            ctx.scratch["lits"] = ctx.scratch.get("lits", []) + [self]

        def __next__(self):
            line = super().__next__()
            self.handed_out += 1
            return line

        def back(self, line):
            super().back(line)
            self.handed_out -= 1
    ctx.scratch["lits"] = []
    real_lit = api.LineIterator
    api.LineIterator = CountingLit          # in both modes (the replay must see the same bookkeeping)
    try:
        ctx.scratch["line_samples"] = line_samples
        return _h_parser_body(ctx, api, mods, fmt, fn, many, fault, lines, text, explicit, twin, FileFormatError, LoadError)
    finally:
        api.LineIterator = real_lit


def _h_parser_body(ctx, api, mods, fmt, fn, many, fault, lines, text, explicit, twin, FileFormatError, LoadError):
    with stubbed(*mods):
        only = ONLY_LINES.get(fmt)
        skipf = None
        if only is not None:
            import re as _re2
            rx = _re2.compile(only)

            def skipf(t, m):
                ls = t.rfind("\n", 0, m.start()) + 1
                le = t.find("\n", m.end())
                return not rx.search(t[ls:le if le >= 0 else len(t)])
        t2, table = corpus.tokenise(text, max_tokens=3000, use_model=False, skip=skipf, ctx=ctx)
        if fault == "none":
            pass
        elif fault == "truncate":
            cut = ctx.choice(list(range(0, len(lines) + 1)), label="cut-after-line")
            t2 = "".join(t2.splitlines(keepends=True)[:cut])
        elif fault in ("truncate-inline", "lines"):
            tl = t2.splitlines(keepends=True)
            n = len(tl)
            if n == 0:
                return
            line_samples = ctx.scratch.get("line_samples")
            nsample = (line_samples or n) if line_samples is not None else (10 if ctx.tier == "quick" else n)
            idxs = sorted({int(round(i * (n - 1) / max(1, nsample - 1))) for i in range(nsample)}) if n > nsample else list(range(n))
            k = ctx.choice(idxs, label="line")
            if fault == "truncate-inline":
                # a writer that crashed in the middle of a line: the last line is a proper prefix (one character, half
                # of it, all but the last character and the newline)
                ln = tl[k].rstrip("\n")
                fr = (0.5, 0.99) if (ctx.tier == "quick" and n > 30) else (0.25, 0.5, 0.6, 0.7, 0.8, 0.9, 0.99)
                keep = ctx.choice(sorted({1} | {max(1, min(len(ln) - 1, int(len(ln) * f))) for f in fr}), label="prefix-length")
                t2 = "".join(tl[:k]) + ln[:keep]
            else:
                how = ctx.choice(["delete", "duplicate", "swap-with-next", "blank", "comment", "insert-blank"], label="mutation")
                if how == "delete":
                    tl = tl[:k] + tl[k + 1:]
                elif how == "blank":
                    tl = tl[:k] + ["\n"] + tl[k + 1:]
                elif how == "comment":
                    tl = tl[:k] + ["# " + tl[k]] + tl[k + 1:]
                elif how == "insert-blank":
                    tl = tl[:k] + ["\n"] + tl[k:]
                elif how == "duplicate":
                    tl = tl[:k + 1] + tl[k:]
                elif k + 1 < n:
                    tl = tl[:k] + [tl[k + 1], tl[k]] + tl[k + 2:]
                t2 = "".join(tl)
        elif fault == "count":
            # one integer field (a count, an index, a size) replaced by a smaller or larger integer
            import re as _re3
            ints = [m for m in _re3.finditer(r"(?<![\w.+-])\d+(?![\w.])", t2) if not any(corpus_is_pua(ch) for ch in m.group(0))]
            if not ints:
                return
            # counts and sizes first: integers on lines with '=' or standing alone on their line; then a spread over the rest
            def _line_of(mm):
                a = t2.rfind("\n", 0, mm.start()) + 1
                b = t2.find("\n", mm.end())
                return t2[a:b if b >= 0 else len(t2)]
            prio = [k for k, mm in enumerate(ints) if "=" in _line_of(mm) or _line_of(mm).split() == [mm.group(0)]]
            nprio, nrest = (6, 4) if ctx.tier == "quick" else (30, 20)
            if len(prio) > nprio:
                prio = [prio[int(round(i * (len(prio) - 1) / (nprio - 1)))] for i in range(nprio)]
            rest = [k for k in range(len(ints)) if k not in prio]
            if len(rest) > nrest:
                rest = [rest[int(round(i * (len(rest) - 1) / (nrest - 1)))] for i in range(nrest)]
            idxs = sorted(set(prio) | set(rest))
            m = ints[ctx.choice(idxs, label="integer-field")]
            v = int(m.group(0))
            how = ctx.choice(["minus-2", "plus-2", "times-10"], label="how")
            nv = {"minus-2": max(0, v - 2), "plus-2": v + 2, "times-10": v * 10 + 3}[how]
            rep = str(nv).rjust(len(m.group(0)))
            t2 = t2[:m.start()] + rep + t2[m.end():]
        elif fault == "corrupt":
            if not table:
                return
            ks = sorted({0, 1, len(table) // 2, len(table) - 1} & set(range(len(table))))
            k = ctx.choice(ks, label="field")
            how = ctx.choice(["non-numeric", "empty", "huge"], label="how")
            name, sym, orig, lineno = table[k]
            # locate the k-th token/number in the text
            if ctx.mode == "sym":
                tok = [t for t in ctx.scratch["tokens"] if t.sym is sym][0].text
                rep = {"non-numeric": "?" * len(tok), "empty": " " * len(tok), "huge": "9" * max(len(tok), 12)}[how]
                t2 = t2.replace(tok, rep, 1)
            else:
                idx = [m for m in corpus.NUM.finditer(text)]
                cnt = -1
                for m in idx:
                    s = m.group(0)
                    frac = s.split(".", 1)[1]
                    import re as _re
                    if len(_re.match(r"\d*", frac).group(0)) < 2:
                        continue
                    cnt += 1
                    if cnt == k:
                        rep = {"non-numeric": "?" * len(s), "empty": " " * len(s), "huge": "9" * max(len(s), 12)}[how]
                        t2 = text[:m.start()] + rep + text[m.end():]
                        break
        base = os.path.basename(fn)
        binary_dir = None
        if fault == "binary":
            # bytes that are not text: a real file (the in-memory files hold text), all of it or one byte inside line k
            import tempfile
            raw = text.encode("utf-8", "replace")
            how = ctx.choice(["all-binary", "one-byte"], label="binary-kind")
            if how == "all-binary":
                raw = bytes(range(128, 256)) * 40
            else:
                offs = [i for i, ch in enumerate(raw) if ch not in (10, 13)]
                k = ctx.choice(sorted({offs[0], offs[len(offs) // 7], offs[len(offs) // 2], offs[-1]}), label="offset")
                raw = raw[:k] + b"\xe4" + raw[k + 1:]
            binary_dir = tempfile.mkdtemp(prefix="symx-c07-")
            path = os.path.join(binary_dir, base)
            with open(path, "wb") as fh:
                fh.write(raw)
            ctx.scratch["memfs_fallthrough"] = True
        else:
            path = ctx.tmp_path(base)
            ctx.write_text(path, t2)
            ctx.scratch["memfs_fallthrough"] = False
        out, err, objs = None, None, []
        with warnings.catch_warnings(record=True):
            warnings.simplefilter("always")
            try:
                kw = dict(fmt=fmt) if explicit else {}
                if many:
                    for d in api.load_many(path, **kw):
                        objs.append(d)
                else:
                    objs.append(api.load_one(path, **kw))
                out = "ok"
            except LoadError as e:
                out, err = "LoadError", e
            except FileFormatError as e:
                out, err = "FileFormatError", e
            except (core.PathAbort, core._Infeasible, core._Deadline):
                raise
            except BaseException as e:
                out, err = type(e).__name__, e
    if binary_dir is not None:
        import shutil
        still_open = [os.readlink(f"/proc/self/fd/{n}") for n in os.listdir("/proc/self/fd")
                      if os.path.exists(f"/proc/self/fd/{n}") and os.path.islink(f"/proc/self/fd/{n}")]
        leaked = path in still_open
        shutil.rmtree(binary_dir, ignore_errors=True)
        ctx.scratch["memfs_fallthrough"] = False
    cls = f"{fmt},{fault},{'many' if many else 'one'}"
    if binary_dir is not None:
        ctx.oblige("file-closed-afterwards", not leaked, cls=cls)
    if out == "FileFormatError" and not explicit:
        # the fixture name is not covered by a pattern of this format: selection error is the documented outcome
        return
    ctx.oblige("loads-or-LoadError", out in ("ok", "LoadError") and not twin, cls=cls, detail=f"{out}: {err!r} cause={getattr(err, '__cause__', None)!r}")
    if out == "LoadError":
        ctx.oblige("error-names-the-file", path in str(err), cls=cls, detail=str(err))
        lits = ctx.scratch.get("lits", [])
        if getattr(err, "lineno", None) is not None and len(lits) == 1 and getattr(err, "filename", None) == path:
            # when a line is given it is the number of the last line that was read (lines handed out minus lines pushed back)
            ctx.oblige("error-line-is-the-last-line-read", err.lineno == lits[0].handed_out, cls=cls,
                       detail=f"message says line {err.lineno}, {lits[0].handed_out} lines had been read")
    for d in objs:
        ok, what = _consistent(d)
        ctx.oblige("returned-object-is-consistent", ok, cls=cls, detail=str(what))
    if ctx.mode == "sym":
        opened = [e for e in ctx.events if e[0] == "open" and e[1] == path]
        closed = [e for e in ctx.events if e[0] == "close" and e[1] == path]
        ctx.oblige("file-closed-afterwards", len(opened) == len(closed), cls=cls)
    # outcome signature (used by the call-history check C16): kind of outcome, message without the scratch path, objects
    return dict(out=out, msg=str(err).replace(os.path.dirname(path), "<dir>") if err is not None else None, objs=objs)


def jobs(tier):
    M = "harness.c07"
    out = [job("C07", "funnel[load_one]", M, "h_funnel", dict(many=False), max_validate=40),
           job("C07", "funnel[load_many]", M, "h_funnel", dict(many=True), max_validate=40, max_paths=2000)]
    for fmt, fn, many in FIXTURES:
        ml = 60 if tier == "quick" else 400
        out.append(job("C07", f"truncate[{fmt},{fn}]", M, "h_parser", dict(fmt=fmt, fn=fn, many=many, fault="truncate", max_lines=ml),
                       budget_s=300 if tier == "quick" else 3000, max_validate=3, max_paths=3000))
        out.append(job("C07", f"corrupt[{fmt},{fn}]", M, "h_parser", dict(fmt=fmt, fn=fn, many=many, fault="corrupt", max_lines=max(ml, 400)),
                       budget_s=300, max_validate=3, max_paths=200))
        if fmt not in ("json_qcschema",):
            out.append(job("C07", f"binary[{fmt},{fn}]", M, "h_parser", dict(fmt=fmt, fn=fn, many=many, fault="binary", max_lines=ml),
                           budget_s=300, max_validate=3, max_paths=40))
        for fault in ("truncate-inline", "lines", "count"):
            out.append(job("C07", f"{fault}[{fmt},{fn}]", M, "h_parser",
                           dict(fmt=fmt, fn=fn, many=many, fault=fault, max_lines=max(ml, 400) if fault == "count" else ml),
                           budget_s=300 if tier == "quick" else 3000, max_validate=3, max_paths=1500))
    # a file with several per-atom array fields whose last data line is only partly filled (6 atoms): every line mutated
    out.append(job("C07", "lines[fchk,water_dimer_ghost.fchk,every-line]", M, "h_parser",
                   dict(fmt="fchk", fn="water_dimer_ghost.fchk", many=False, fault="lines", max_lines=200, line_samples=0),
                   budget_s=300 if tier == "quick" else 3000, max_validate=3, max_paths=1500))
    out.append(job("C07", "parser[twin]", M, "h_parser", dict(fmt="xyz", fn="water_element.xyz", fault="truncate", twin=True),
                   expect="cex", max_validate=0, max_paths=5))
    return out
