"""C11 - charge, electron count and core charges stay consistent under any assignments."""

from __future__ import annotations

import itertools

import numpy as np

from symx import core
from symx.core import And, Not, Or, Sym
from symx.runner import job
from symx.stubs import stubbed

META = dict(
    bounds=dict(
        quick="construction with 14 argument subsets of {atnums, atcorenums, charge, nelec, spinpol, mo, atcoords} "
              "followed by every operation sequence of length <= 2 over 20 operations (assign/clear atnums (2 and 3 "
              "atoms), atcorenums (2/3), charge, nelec, spinpol, mo, atcoords (None/2/3 atoms); read charge; read all), and from three starting points over all 28 "
              "operations (adds atmasses, atgradient, atfrozen of 2/3 atoms, read atcorenums, read natom, clear spinpol); all "
              "real values of charge, nelec, spinpol, core charges and orbital occupations; clearing (None) reads back as None "
              "when no orbitals decide",
        thorough="all 128 construction subsets followed by every operation sequence of length <= 3 over the 20 operations of "
                 "the quick tier; from the 14 construction subsets of the quick tier every sequence of length <= 3 over all 28 "
                 "operations (adds atmasses, atgradient, atfrozen of 2/3 atoms, read atcorenums, read natom, clear spinpol)"),
    outside=["histories longer than the depth", "arrays of more than 3 atoms", "float rounding"],
    assumptions=["exact real arithmetic", "numpy replaced by symnp in iodata.iodata/attrutils/orbitals",
                 "weaker readings: an assignment that keeps the arrays consistent may still be refused; "
                 "only refusals required by the statement are demanded"],
    explanation="all bounded assignment histories of IOData explored; invariants decided by z3 for all values",
)

PER_ATOM = ("atnums", "atcorenums", "atcoords", "atmasses", "atgradient", "atfrozen")


def _mods():
    import iodata.attrutils as A
    import iodata.iodata as I
    import iodata.orbitals as O
    return I, A, O


def _arr(x, ctx):
    if x is None:
        return None
    return np.array(x, dtype=object if ctx.mode == "sym" else None, copy=True)


def observe(d, ctx):
    """Full public observation (invasive, exactly like a user reading every property)."""
    o = {}
    o["natom"] = d.natom
    o["atnums"] = _arr(d.atnums, ctx)
    o["atcorenums"] = _arr(d.atcorenums, ctx)
    o["charge"] = d.charge
    o["nelec"] = d.nelec
    o["spinpol"] = d.spinpol
    o["atcoords"] = _arr(d.atcoords, ctx)
    o["atmasses"] = _arr(d.atmasses, ctx)
    o["atgradient"] = _arr(d.atgradient, ctx)
    o["atfrozen"] = _arr(d.atfrozen, ctx)
    o["mo"] = id(d.mo) if d.mo is not None else None
    return o


def _same(ctx, a, b):
    """Conjunction: two observations are equal (None-ness concretely, numbers as terms)."""
    parts = []
    for k in a:
        x, y = a[k], b[k]
        if (x is None) != (y is None):
            return False, k
        if x is None:
            continue
        if k in ("mo", "natom"):
            if x != y:
                return False, k
            continue
        if np.shape(x) != np.shape(y):
            return False, k
        parts.append(ctx.eq(x, y))
    return And(*parts) if parts else True, None


def _values(ctx, step):
    """Value menu for one step (fresh symbols per step)."""
    s = f"s{step}"
    return {
        "A2": np.array([1, 1]), "B2": np.array([8, 8]), "A3": np.array([1, 1, 6]),
        "core2": lambda: ctx.real_array(f"{s}core", (2,), lo=0, hi=20),
        "core3": lambda: ctx.real_array(f"{s}core", (3,), lo=0, hi=20),
        "real": lambda n: ctx.real(f"{s}{n}", lo=-10, hi=30),
    }


def _mk_mo(ctx, O, tag, noocc=False):
    if noocc:
        return O.MolecularOrbitals("restricted", 2, 2)      # orbitals without occupation numbers
    occ = ctx.real_array(f"{tag}occ", (2,), lo=0, hi=2)
    return O.MolecularOrbitals("restricted", 2, 2, occ)


OPS_QUICK = [
    ("atnums", None), ("atnums", "A2"), ("atnums", "B2"), ("atnums", "A3"),
    ("atcorenums", None), ("atcorenums", "core2"), ("atcorenums", "core3"),
    ("charge", None), ("charge", "real"), ("nelec", None), ("nelec", "real"),
    ("spinpol", "real"), ("mo", None), ("mo", "MO"), ("mo", "MO-noocc"),
    ("atcoords", None), ("atcoords", 2), ("atcoords", 3),
    ("read", "charge"), ("read", "all"),
]
OPS_MORE = [
    ("atmasses", 2), ("atmasses", 3), ("atgradient", 2), ("atfrozen", 2), ("atfrozen", 3),
    ("read", "atcorenums"), ("read", "natom"), ("spinpol", None),
]

CTOR_QUICK = [
    (), ("atnums",), ("atnums", "charge"), ("atnums", "nelec"), ("atnums", "atcorenums"),
    ("atnums", "atcorenums", "charge"), ("atcorenums", "nelec"), ("charge",), ("atcoords", "charge"),
    ("atnums", "mo"), ("mo",), ("atnums", "charge", "spinpol"), ("atcorenums", "charge", "nelec"),
    ("atnums", "atcoords", "nelec", "spinpol"),
]
CTOR_ALL_KEYS = ("atnums", "atcorenums", "charge", "nelec", "spinpol", "mo", "atcoords")


class Spec:
    """What the statement lets us predict without running the code."""

    def __init__(self):
        self.atnums = None
        self.core = None            # explicitly assigned core charges
        self.lens = {}              # per-atom attribute -> length (successfully assigned)
        self.mo = None
        self.had_atnums = False
        self.reassigned = False     # atnums assigned again after an earlier value existed

    def natom(self, skip=None):
        ls = {v for k, v in self.lens.items() if k != skip}
        return ls


def _per_atom_len(name, val):
    return None if val is None else len(val)


def h_history(ctx, ctor=(), depth=2, ops="quick", twin=False, op0=None):
    I, A, O = _mods()
    menu = list(OPS_QUICK) + (list(OPS_MORE) if ops == "all" else [])
    spec = Spec()
    with stubbed(I, A, O):
        # ---- construction
        kw = {}
        if "atnums" in ctor:
            kw["atnums"] = np.array([1, 1])
        if "atcorenums" in ctor:
            kw["atcorenums"] = ctx.real_array("c0core", (2,), lo=0, hi=20)
        if "charge" in ctor:
            kw["charge"] = ctx.real("c0charge", lo=-10, hi=30)
        if "nelec" in ctor:
            kw["nelec"] = ctx.real("c0nelec", lo=-10, hi=30)
        if "spinpol" in ctor:
            kw["spinpol"] = ctx.real("c0spinpol", lo=-10, hi=30)
        if "mo" in ctor:
            kw["mo"] = _mk_mo(ctx, O, "c0")
        if "atcoords" in ctor:
            kw["atcoords"] = np.zeros((2, 3))
        try:
            d = I.IOData(**kw)
        except TypeError:
            # allowed only when orbitals are combined with an electron count, a spin polarisation or a charge (which fixes the
            # electron count as soon as the core charges are known)
            ctx.oblige("ctor:TypeError-only-with-mo-and-nelec/spinpol",
                       "mo" in ctor and ("nelec" in ctor or "spinpol" in ctor or "charge" in ctor), cls=str(ctor))
            return
        spec.atnums = kw.get("atnums")
        spec.had_atnums = spec.atnums is not None
        spec.core = kw.get("atcorenums")
        spec.mo = kw.get("mo")
        for k in PER_ATOM:
            if kw.get(k) is not None:
                spec.lens[k] = len(kw[k])
        assigned = {k: kw[k] for k in ("charge", "nelec", "spinpol") if k in kw}
        # with both charge and nelec given the core charges decide; read-back of the ctor args:
        if "mo" not in ctor:
            if "nelec" in kw and "charge" not in kw:
                ctx.oblige("ctor:nelec-reads-back", ctx.eq(d.nelec, kw["nelec"]), cls=str(ctor))
            if "nelec" in kw and "charge" in kw:
                # two arguments that may contradict each other: one of them wins (the statement does not say which); the
                # invariant charge = core charges - nelec is checked below like after any other step
                ctx.oblige("ctor:charge-or-nelec-reads-back", core.Or(ctx.eq(d.nelec, kw["nelec"]), ctx.eq(d.charge, kw["charge"])), cls=str(ctor))
            if "spinpol" in kw:
                ctx.oblige("ctor:spinpol-reads-back", ctx.eq(d.spinpol, kw["spinpol"]), cls=str(ctor))
            if "charge" in kw and "nelec" not in kw:
                ctx.oblige("ctor:charge-reads-back", ctx.eq(d.charge, kw["charge"]), cls=str(ctor))

        # ---- history
        for step in range(depth):
            m = menu + [("stop", None)]
            if step == 0 and op0 is not None:
                m = [tuple(op0)]
            attr, vk = ctx.choice(m, label=f"op{step}")
            if attr == "stop":
                break
            if attr == "read":
                if vk == "all":
                    observe(d, ctx)
                else:
                    getattr(d, vk)
                continue
            # build the value
            s = f"s{step}"
            if vk is None:
                val = None
            elif vk == "A2":
                val = np.array([1, 1])
            elif vk == "B2":
                val = np.array([8, 8])
            elif vk == "A3":
                val = np.array([1, 1, 6])
            elif vk in ("core2", "core3"):
                val = ctx.real_array(f"{s}core", (int(vk[-1]),), lo=0, hi=20)
            elif vk == "real":
                val = ctx.real(f"{s}{attr}", lo=-10, hi=30)
            elif vk == "MO":
                val = _mk_mo(ctx, O, s)
            elif vk == "MO-noocc":
                val = _mk_mo(ctx, O, s, noocc=True)
            elif attr in ("atcoords", "atgradient"):
                val = np.zeros((vk, 3))
            elif attr == "atmasses":
                val = np.ones(vk)
            elif attr == "atfrozen":
                val = np.zeros(vk, dtype=bool)
            else:
                raise RuntimeError(vk)
            # does the statement demand a refusal?
            must_refuse = False
            if attr in PER_ATOM and val is not None:
                others = spec.natom(skip=attr)
                if others and len(val) not in others:
                    must_refuse = True
            if attr in ("nelec", "spinpol") and spec.mo is not None:
                must_refuse = True
            before = observe(d, ctx) if must_refuse else None
            try:
                setattr(d, attr, val)
                ok = True
                exc = None
            except TypeError as e:
                ok = False
                exc = e
            cls = f"{attr}={vk}"
            if must_refuse:
                ctx.oblige("inconsistent-assignment-raises-TypeError", not ok, cls=cls)
                after = observe(d, ctx)
                same, where = _same(ctx, before, after)
                ctx.oblige("refused-assignment-leaves-object-unchanged", same, cls=cls,
                           detail=f"differs in {where}" if where else None)
                if ok:
                    return
                continue
            if not ok:
                ctx.note(f"{cls} refused (not demanded, accepted by the weaker reading)")
                continue
            # successful assignment: update the spec
            if attr == "atnums":
                if val is not None:
                    if spec.had_atnums:
                        spec.reassigned = True
                    spec.had_atnums = True
                spec.atnums = val
            elif attr == "atcorenums":
                spec.core = val
            elif attr == "mo":
                spec.mo = val
            if attr in PER_ATOM:
                if val is None:
                    spec.lens.pop(attr, None)
                else:
                    spec.lens[attr] = len(val)
            if attr in ("charge", "nelec", "spinpol") and val is not None:
                got = getattr(d, attr)
                ctx.oblige(f"assign-{attr}:reads-back", (got is not None) and ctx.eq(got, val + (1.0 if twin else 0.0)),
                           cls=cls)
            if attr in ("charge", "nelec", "spinpol") and val is None and spec.mo is None:
                # clearing is an assignment as well (the value alphabet of the statement includes None): without orbitals, which
                # would decide the electron count, the cleared quantity reads back as None
                got = getattr(d, attr)
                ctx.oblige(f"assign-{attr}:reads-back", got is None, cls=cls, detail=f"reads {got!r} after the assignment of None")

        # ---- final full observation: the stated invariants
        o1 = observe(d, ctx)
        o2 = observe(d, ctx)
        same, where = _same(ctx, o1, o2)
        ctx.oblige("reading-is-idempotent", same, detail=where)
        hist = ";".join(n for n in ctx.res.notes if n.startswith("op")) if ctx.mode == "sym" else ""
        # (3)/(2) core charges: explicit value, else the atomic numbers
        if spec.core is not None:
            exp_core = spec.core
        elif spec.atnums is not None:
            exp_core = np.asarray(spec.atnums, dtype=float)
        else:
            exp_core = None
        if exp_core is None:
            pass    # no atomic numbers and no explicit core charges: the statement predicts nothing
        else:
            got = o1["atcorenums"]
            ctx.oblige("core-charges-default-to-atnums-until-set",
                       got is not None and np.shape(got) == np.shape(exp_core) and ctx.eq(got, exp_core),
                       cls="explicit" if spec.core is not None else
                       ("from-atnums,after-atnums-reassigned" if spec.reassigned else "from-atnums"), detail=hist)
        # (1) charge = sum(core) - nelec
        if o1["atcorenums"] is not None and o1["nelec"] is not None:
            tot = sum(list(o1["atcorenums"]), 0.0)
            ctx.oblige("charge=sum(core)-nelec", o1["charge"] is not None and ctx.eq(o1["charge"], tot - o1["nelec"]))
        # (4) orbitals decide nelec / spinpol
        if spec.mo is not None:
            if spec.mo.occs is None:
                ctx.oblige("mo-decides-nelec", o1["nelec"] is None, cls="orbitals-without-occupations")
                ctx.oblige("mo-decides-spinpol", o1["spinpol"] is None, cls="orbitals-without-occupations")
            else:
                ctx.oblige("mo-decides-nelec", ctx.eq(o1["nelec"], sum(list(spec.mo.occs), 0.0)))
                ctx.oblige("mo-decides-spinpol", ctx.eq(o1["spinpol"], spec.mo.spinpol))
        # (5) per-atom arrays agree
        lens = {k: len(o1[k]) for k in PER_ATOM if o1[k] is not None}
        ctx.oblige("per-atom-arrays-agree", len(set(lens.values())) <= 1 and
                   (not lens or o1["natom"] == next(iter(lens.values()))), detail=str(lens))


def jobs(tier):
    M = "harness.c11"
    out = []
    if tier == "quick":
        for ctor in CTOR_QUICK:
            out.append(job("C11", f"history[ctor={'+'.join(ctor) or 'none'}]", M, "h_history",
                           dict(ctor=list(ctor), depth=2, ops="quick"), budget_s=240, max_validate=25))
        # the full operation set (incl. masses, gradient, frozen flags, natom) at depth 2 from three starting points
        for ctor in ((), ("atnums",), ("atcoords",)):
            out.append(job("C11", f"history-all-ops[ctor={'+'.join(ctor) or 'none'}]", M, "h_history",
                           dict(ctor=list(ctor), depth=2, ops="all"), budget_s=240, max_validate=25))
    else:
        for r in range(len(CTOR_ALL_KEYS) + 1):
            for ctor in itertools.combinations(CTOR_ALL_KEYS, r):
                if "mo" in ctor and ("nelec" in ctor or "spinpol" in ctor):
                    out.append(job("C11", f"history[ctor={'+'.join(ctor)}]", M, "h_history",
                                   dict(ctor=list(ctor), depth=0, ops="all"), budget_s=60))
                    continue
                full = ctor in CTOR_QUICK
                out.append(job("C11", f"history[ctor={'+'.join(ctor) or 'none'}]", M, "h_history",
                               dict(ctor=list(ctor), depth=3, ops="all" if full else "quick"), budget_s=1500, max_validate=25,
                               max_paths=200000))
    out.append(job("C11", "history[twin]", M, "h_history", dict(ctor=["atnums"], depth=1, twin=True),
                   expect="cex"))
    return out
