"""C03 - loaded values are exactly what the file says under the format's published layout."""

from __future__ import annotations

import warnings

import numpy as np

from specs import layouts as L
from symx import core
from symx.core import And, Not, Or, Sym
from symx.runner import job
from symx.stubs import stubbed
from harness import rt

META = dict(
    bounds=dict(
        quick="files produced by independent layout-table writers (specs/layouts.py) for sdf, pdb, gro, mol2, xyz, extxyz, "
              "poscar (direct/cartesian, selective dynamics, scale factor), chgcar, locpot, cube, charmm crd (two segments, residue numbers and residue ids that differ), fcidump, wfn (contracted shells, "
              "function types in standard / rotated / alphabetical / swapped order), wfx (same primitive model; nuclear charges, "
              "energies, virials, gradient rows identified by nuclear name), fchk (s/sp/d shells, restricted/unrestricted orbitals, "
              "densities, six charge kinds, gradient, Hessian, moments, polarizability, frozen atoms, run types; Opt/IRC "
              "trajectories through load_many), molden and molekel (units, 5D flags before/after [GTO], orbital blocks of "
              "more than five columns, restricted/unrestricted; norm gate open), mwfn (s, p, 6d/5d shells, all orbitals), gamess punch (1, 2 and 34 atoms: the two-digit row counter of $HESS wraps at 100), gaussian input (link0/route/title "
              "lines), gaussian log integral dumps (blocks of five columns; nbasis 1, 5, 6, 11; two-electron integrals); every "
              "numeric field symbolic (token of the printed width; one field per record may fill its column), symbolic "
              "bond partners / CONECT serials in their legal range; sizes 1-3 atoms plus boundary sizes; optional "
              "sections absent/present (gro velocities, triclinic box, time; pdb CONECT; cube ragged last lines)",
        thorough="two fields per record may fill their columns; more sizes and frames (sdf 100/999 atoms with 3 bonds, gro 3 frames, "
                 "xyz 5 frames, cube 2x3x4 / 3x1x5 / 1x1x13, wfn with 3 primitives per shell, wfx unrestricted for every type order, "
                 "fchk d shells with all property sections, molden/molekel for every unit spelling x d kind x spin x flag position "
                 "with 7 orbitals, gaussian log nbasis 2/10/12, fcidump n=3)"),
    outside=["orcalog, qchemlog, cp2klog, json_qcschema: no independent layout writer in this check (free-form "
             "program output; their unit handling is checked on the tokenised corpus in C04)", "float32 storage precision of gro/charmm positions", "Fortran D exponents"],
    assumptions=["the layout tables are transcriptions of the public format descriptions cited in specs/layouts.py",
                 "placeholder tokens; in-memory files; exact reals"],
    explanation="symbolic execution of the real readers on token files written by independent layout writers",
)


def _load(ctx, api, path, fmt=None, many=False):
    from iodata.utils import LoadError
    with warnings.catch_warnings(record=True) as wl:
        warnings.simplefilter("always")
        try:
            if many:
                res = list(api.load_many(path, fmt=fmt))
            else:
                res = api.load_one(path, fmt=fmt)
        except LoadError as e:
            ctx.scratch.setdefault("loaded", []).append(("LoadError", str(e), []))
            return None, e
    # (kept for histories, C16: what a call returned is compared with what the same call returns later)
    ctx.scratch.setdefault("loaded", []).append(("ok", "", res if many else [res]))
    return res, None


def _arr(ctx, rows):
    return np.array(rows, dtype=object if ctx.mode == "sym" else float)


def _cmp(ctx, label, got, want, cls, tol=None, detail=None):
    if isinstance(want, list) and (not want or isinstance(want[0], str)):
        ctx.oblige(label, list(got) == want if got is not None else False, cls=cls, detail=detail or f"{got!r} vs {want!r}"[:200])
        return
    if isinstance(want, np.ndarray) and want.dtype.kind in "iub" or isinstance(want, (int, str, bool)):
        if isinstance(want, np.ndarray):
            ok = got is not None and np.shape(got) == want.shape and bool(np.array_equal(np.asarray(got), want))
        else:
            ok = got == want
        ctx.oblige(label, ok, cls=cls, detail=detail or f"{got!r} vs {want!r}"[:200])
        return
    if got is None or np.shape(got) != np.shape(want):
        ctx.oblige(label, False, cls=cls, detail=f"shape {np.shape(got) if got is not None else None} vs {np.shape(want)}")
        return
    if ctx.mode == "conc":
        g, w = np.asarray(got, dtype=float), np.asarray(want, dtype=float)
        if isinstance(tol, tuple):
            ok = bool(np.all(np.abs(g - w) <= max(tol[1], 1e-7) * np.abs(w) + 1e-12))
        else:
            ok = bool(np.all(np.abs(g - w) <= (tol or 1e-9) + 1e-7 * np.abs(w)))
        ctx.oblige(label, ok, cls=cls, detail=detail)
        return
    ctx.oblige(label, ctx.approx(got, want, 1e-7), cls=cls, detail=detail)


# ------------------------------------------------------------------------------------------ SDF
def h_sdf(ctx, natom=3, nbond=2, policy="touch"):
    import iodata.api as api
    mods = rt._fmt_modules("sdf")
    ctx.scratch["width_policy"] = policy
    ctx.scratch["full_budget"] = 2 if ctx.tier == "thorough" else 1
    with stubbed(*mods):
        zs = [8, 1, 17, 6, 35][:1] * natom
        atoms = []
        for i in range(natom):
            z = [8, 1, 17, 6, 35][i % 5]
            if i in (0, natom - 1):
                x, y, zz = (ctx.real(f"x{i}_{k}", lo=-9000, hi=9000, default=1.5 * k - i) for k in range(3))
            else:
                x, y, zz = 0.1 * i, -0.2 * i, 0.3
            atoms.append((z, x, y, zz))
        bonds = []
        for b in range(nbond):
            if b == 0:
                i = ctx.int("bi", lo=1, hi=natom, default=1)
                j = ctx.int("bj", lo=1, hi=natom, default=natom)
                t = ctx.choice([1, 2, 3, 4], label="btype")
            else:
                i, j, t = 1, min(natom, 2), 1
            bonds.append((i, j, t))
        text = L.write_sdf(dict(title="mol", atoms=atoms, bonds=bonds))
        path = ctx.tmp_path("m.sdf")
        ctx.write_text(path, text)
        d, err = _load(ctx, api, path)
        cls = f"sdf,n={natom},b={nbond}"
        ctx.oblige("well-formed-file-loads", err is None, cls=cls, detail=f"{err} / {getattr(err, '__cause__', None)!r}")
        if err is not None:
            return
        _cmp(ctx, "atnums", d.atnums, np.array([a[0] for a in atoms]), cls)
        want = _arr(ctx, [[a[1] * L.ANGSTROM, a[2] * L.ANGSTROM, a[3] * L.ANGSTROM] for a in atoms])
        _cmp(ctx, "atcoords", d.atcoords, want, cls, tol=1e-3)
        if nbond:
            gb = d.bonds
            ok = gb is not None and np.shape(gb) == (nbond, 3)
            if ok:
                parts = []
                for r, (i, j, t) in enumerate(bonds):
                    parts += [ctx.eq(gb[r, 0], i - 1), ctx.eq(gb[r, 1], j - 1), ctx.eq(gb[r, 2], t)]
                ok = And(*parts)
            ctx.oblige("bonds-zero-based-partners-and-type", ok, cls=cls)
        _cmp(ctx, "title", d.title, "mol", cls)


# ------------------------------------------------------------------------------------------ PDB
def _pdb_guess(name):
    """The documented fall-back when columns 77-78 are blank: the atom name, its first two letters, its first letter."""
    from specs.layouts import NUM2SYM
    sym2num = {v: k for k, v in NUM2SYM.items()}
    return sym2num.get(name, sym2num.get(name[:2].title(), sym2num.get(name[0], 0)))


def h_pdb(ctx, natom=3, big=False, policy="touch", element_column=True):
    import iodata.api as api
    mods = rt._fmt_modules("pdb")
    ctx.scratch["width_policy"] = policy
    ctx.scratch["full_budget"] = 2 if ctx.tier == "thorough" else 1
    with stubbed(*mods):
        atoms = []
        base = 9998 if big else 1
        for i in range(natom):
            z = [7, 6, 8, 16][i % 4]
            if i in (0, natom - 1):
                x, y, zz = (ctx.real(f"x{i}_{k}", lo=-900, hi=9000, default=1.5 * k - i) for k in range(3))
                occ = ctx.real(f"occ{i}", lo=0, hi=999, default=1.0)       # the fields are 6.2: up to 999.99 is legal
                b = ctx.real(f"b{i}", lo=-99, hi=999, default=20.0)
            else:
                x, y, zz, occ, b = 0.1 * i, -0.2 * i, 0.3, 1.0, 0.0
            atoms.append((base + i, ["N", "CA", "O", "SG"][i % 4], "ALA", "A", 1 + i, x, y, zz, occ, b, z))
        conect = []
        if natom > 1:
            s0 = ctx.int("c0", lo=base, hi=base + natom - 2, default=base)
            s1 = ctx.int("c1", lo=base + 1, hi=base + natom - 1, default=base + natom - 1)
            ctx.assume(s0 < s1)
            conect.append((s0, [s1]))
        text = L.write_pdb(dict(title="prot", atoms=atoms, conect=conect, no_element=not element_column))
        path = ctx.tmp_path("m.pdb")
        ctx.write_text(path, text)
        d, err = _load(ctx, api, path)
        cls = f"pdb,n={natom},big={big}" + ("" if element_column else ",no-element-column")
        ctx.oblige("well-formed-file-loads", err is None, cls=cls, detail=f"{err} / {getattr(err, '__cause__', None)!r}")
        if err is not None:
            return
        _cmp(ctx, "atnums", d.atnums, np.array([a[10] if element_column else _pdb_guess(a[1]) for a in atoms]), cls)
        want = _arr(ctx, [[a[5] * L.ANGSTROM, a[6] * L.ANGSTROM, a[7] * L.ANGSTROM] for a in atoms])
        _cmp(ctx, "atcoords", d.atcoords, want, cls, tol=2e-3)
        _cmp(ctx, "occupancies", d.extra.get("occupancies"), _arr(ctx, [a[8] for a in atoms]), cls, tol=0.0051)
        _cmp(ctx, "bfactors", d.extra.get("bfactors"), _arr(ctx, [a[9] for a in atoms]), cls, tol=0.0051)
        _cmp(ctx, "attypes", list(d.atffparams["attypes"]), [a[1] for a in atoms], cls)
        _cmp(ctx, "resnums", np.asarray(d.atffparams["resnums"]), np.array([a[4] for a in atoms]), cls)
        if conect:
            gb = d.bonds
            ok = gb is not None and np.shape(gb) == (1, 3)
            if ok:
                # serial -> zero-based atom index (serials are consecutive from `base`)
                ok = And(ctx.eq(gb[0, 0], conect[0][0] - base), ctx.eq(gb[0, 1], conect[0][1][0] - base))
            ctx.oblige("conect-partners", ok, cls=cls)


# ------------------------------------------------------------------------------------------ GRO
def h_gro(ctx, natom=2, nframes=1, vel=True, triclinic=True, time=True, policy="touch"):
    import iodata.api as api
    mods = rt._fmt_modules("gromacs")
    ctx.scratch["width_policy"] = policy
    ctx.scratch["full_budget"] = 2 if ctx.tier == "thorough" else 1
    with stubbed(*mods):
        frames = []
        for f in range(nframes):
            atoms = []
            for i in range(natom):
                x, y, z = (ctx.real(f"f{f}x{i}_{k}", lo=-900, hi=9000, default=1.5 * k - i) for k in range(3))
                v = tuple(ctx.real(f"f{f}v{i}_{k}", lo=-90, hi=900, default=0.1 * k) for k in range(3)) if vel else None
                atoms.append((1 + i, "SOL", ["OW", "HW1", "HW2"][i % 3], 1 + i, x, y, z, v))
            box = [[ctx.real(f"f{f}box{r}{c}", lo=0 if r == c else -50, hi=500, default=(3.0 if r == c else 0.1 * (r + 2 * c)))
                    if (triclinic or r == c) else 0.0 for c in range(3)] for r in range(3)]
            t = ctx.real(f"f{f}time", lo=0, hi=1e4, default=2.5 * f) if time else None
            frames.append(dict(title=f"water t{f}", time=t, atoms=atoms, box=box, triclinic=triclinic))
        text = L.write_gro(dict(frames=frames))
        path = ctx.tmp_path("m.gro")
        ctx.write_text(path, text)
        ds, err = _load(ctx, api, path, many=True)
        cls = f"gro,n={natom},vel={vel},tric={triclinic}"
        ctx.oblige("well-formed-file-loads", err is None, cls=cls, detail=f"{err} / {getattr(err, '__cause__', None)!r}")
        if err is not None:
            return
        ctx.oblige("one-object-per-frame", len(ds) == nframes, cls=cls, detail=str(len(ds)))
        for f, (d, fr) in enumerate(zip(ds, frames)):
            want = _arr(ctx, [[a[4] * L.NANOMETER, a[5] * L.NANOMETER, a[6] * L.NANOMETER] for a in fr["atoms"]])
            _cmp(ctx, "atcoords", d.atcoords, want, cls, tol=2e-2)
            if vel:
                wv = _arr(ctx, [[v * L.NANOMETER / L.PICOSECOND for v in a[7]] for a in fr["atoms"]])
                _cmp(ctx, "velocities", d.extra.get("velocities"), wv, cls, tol=("rel", 1e-3))
            wb = _arr(ctx, [[fr["box"][r][c] * L.NANOMETER for c in range(3)] for r in range(3)])
            _cmp(ctx, "cellvecs-rows-are-box-vectors", d.cellvecs, wb, cls, tol=2e-3)
            if time:
                _cmp(ctx, "time", d.extra.get("time"), fr["time"] * L.PICOSECOND, cls, tol=("rel", 1e-4))
            _cmp(ctx, "attypes", list(d.atffparams["attypes"]), [a[2] for a in fr["atoms"]], cls)
            _cmp(ctx, "resnums", np.asarray(d.atffparams["resnums"]), np.array([a[0] for a in fr["atoms"]]), cls)


# ------------------------------------------------------------------------------------------ FCHK
def _tri_dense(ctx, vals, n):
    d = np.zeros((n, n), dtype=object if ctx.mode == "sym" else float)
    k = 0
    for i in range(n):
        for j in range(i + 1):
            d[i, j] = d[j, i] = vals[k]
            k += 1
    return d


def h_fchk(ctx, basis="sp", spin="restricted", props=True, twin=False):
    """Single-point FCHK file in the published record layout: every stored quantity lands where the layout says."""
    import iodata.api as api
    mods = rt._fmt_modules("fchk")
    with stubbed(*mods):
        atoms = []
        for i, z in enumerate((8, 1)):
            x, y, zz = (ctx.real(f"x{i}_{k}", lo=-90, hi=90, default=0.7 * k - i) for k in range(3))
            atoms.append((z, ctx.real(f"q{i}", lo=0, hi=120, default=float(z)), x, y, zz, ctx.real(f"w{i}", lo=1, hi=300, default=2.0 * z)))
        e = lambda n, d: ctx.real(n, lo=0.01, hi=9e4, default=d)       # noqa: E731
        c = lambda n, d: ctx.real(n, lo=-9, hi=9, default=d)           # noqa: E731
        shells = [(0, 1, [e("e0a", 5.0), e("e0b", 1.2)], [c("c0a", 0.4), c("c0b", 0.7)], None)]
        nb = 1
        if basis == "sp":
            shells.append((-1, 2, [e("e1", 0.8)], [c("c1s", 0.9)], [c("c1p", 0.3)]))
            nb += 4
        elif basis == "dcart":
            shells.append((2, 2, [e("e1", 0.8)], [c("c1", 1.0)], None))
            nb += 6
        elif basis == "dpure":
            shells.append((-2, 2, [e("e1", 0.8)], [c("c1", 1.0)], None))
            nb += 5
        norb = 2
        ea = [ctx.real(f"ea{i}", lo=-900, hi=900, default=-1.0 + i) for i in range(norb)]
        ca = [[ctx.real(f"ca{i}_{m}", lo=-9, hi=9, default=0.1 * (m + 1) - 0.3 * i) for m in range(nb)] for i in range(norb)]
        m = dict(title="independent fchk", command=ctx.choice(["SP", "Freq", "FOpt", "Scan", "Force"], label="command"), lot="RB3LYP",
                 basis="6-31G(d)", atoms=atoms, shells=shells, nbasis=nb, alpha=(ea, ca), nalpha=1, nbeta=1,
                 energy=ctx.real("etot", lo=-9e4, hi=0, default=-75.5))
        if spin == "unrestricted":
            m["nalpha"], m["nbeta"] = 2, 1
            eb = [ctx.real(f"eb{i}", lo=-900, hi=900, default=-0.8 + i) for i in range(norb)]
            cb = [[ctx.real(f"cb{i}_{k}", lo=-9, hi=9, default=0.2 * (k + 1) - 0.1 * i) for k in range(nb)] for i in range(norb)]
            m["beta"] = (eb, cb)
        ntri = nb * (nb + 1) // 2
        fields = {}
        if props:
            tri = lambda name, n: [ctx.real(f"{name}{k}", lo=-99, hi=99, default=0.01 * k - 0.2) for k in range(n)]     # noqa: E731
            fields["Total SCF Density"] = tri("dm", ntri)
            fields["Spin SCF Density"] = tri("sdm", ntri)
            fields["Total MP2 Density"] = tri("pdm", ntri)
            fields["Spin MP2 Density"] = tri("psdm", ntri)
            for lab in ("Mulliken Charges", "ESP Charges", "NPA Charges", "MBS Charges", "Type 6 Charges", "Type 7 Charges"):
                fields[lab] = tri("chg" + "".join(ch for ch in lab.split(" Charges")[0].lower() if ch.isalnum()), 2)
            fields["Cartesian Gradient"] = tri("g", 6)
            fields["Cartesian Force Constants"] = tri("h", 21)
            fields["Dipole Moment"] = tri("mu", 3)
            fields["Quadrupole Moment"] = tri("qd", 6)
            fields["Polarizability"] = tri("al", 6)
            m["frozen"] = [0, -2]
        m["fields"] = fields
        text = L.write_fchk(m)
        path = ctx.tmp_path("m.fchk")
        ctx.write_text(path, text)
        d, err = _load(ctx, api, path)
        cls = f"fchk,{basis},{spin},props={props}"
        ctx.oblige("well-formed-file-loads", err is None, cls=cls, detail=f"{err} / {getattr(err, '__cause__', None)!r}")
        if err is not None:
            return
        _cmp(ctx, "atnums", np.asarray(d.atnums), np.array([8, 1]), cls)
        _cmp(ctx, "atcorenums", d.atcorenums, _arr(ctx, [a[1] for a in atoms]), cls)
        _cmp(ctx, "atcoords-in-bohr", d.atcoords, _arr(ctx, [list(a[2:5]) for a in atoms]), cls)
        _cmp(ctx, "atmasses-amu-to-au", d.atmasses, _arr(ctx, [a[5] * L.AMU for a in atoms]), cls)
        _cmp(ctx, "energy", d.energy, m["energy"], cls)
        _cmp(ctx, "title", d.title, "independent fchk", cls)
        _cmp(ctx, "lot", d.lot, "rb3lyp", cls)
        _cmp(ctx, "obasis_name", d.obasis_name, "6-31g(d)", cls)
        want_rt = {"SP": "energy", "Freq": "freq", "FOpt": "opt", "Scan": "scan", "Force": None}[m["command"]]
        ctx.oblige("run_type", d.run_type == want_rt, cls=f"{cls},{m['command']}", detail=f"{d.run_type!r}")
        # basis set
        ctx.oblige("number-of-shells", len(d.obasis.shells) == len(shells), cls=cls)
        for k, (sh, (typ, at, exps, cos, pcs)) in enumerate(zip(d.obasis.shells, shells)):
            ctx.oblige("shell-centre", sh.icenter == at - 1, cls=cls, detail=f"shell {k}")
            want_l, want_k = ([0, 1], ["c", "c"]) if typ == -1 else ([abs(typ)], ["p" if typ < 0 else "c"])
            ctx.oblige("shell-type", list(sh.angmoms) == want_l and list(sh.kinds) == want_k, cls=cls, detail=f"shell {k}: {sh.angmoms} {sh.kinds}")
            _cmp(ctx, "shell-exponents", sh.exponents, _arr(ctx, exps), cls)
            wc = [[a, b] for a, b in zip(cos, pcs)] if typ == -1 else [[a] for a in cos]
            _cmp(ctx, "shell-coefficients", sh.coeffs, _arr(ctx, wc), cls)
        # orbitals
        ctx.oblige("orbital-kind", d.mo.kind == spin, cls=cls, detail=d.mo.kind)
        if spin == "restricted":
            _cmp(ctx, "mo-coefficients", d.mo.coeffs, _arr(ctx, [[ca[i][k] for i in range(norb)] for k in range(nb)]), cls)
            _cmp(ctx, "mo-energies", d.mo.energies, _arr(ctx, ea), cls)
            _cmp(ctx, "mo-occupations", d.mo.occs, np.array([2.0, 0.0]), cls)
        else:
            cb_, eb_ = m["beta"][1], m["beta"][0]
            _cmp(ctx, "mo-coefficients", d.mo.coeffs,
                 _arr(ctx, [[ca[i][k] for i in range(norb)] + [cb_[i][k] for i in range(norb)] for k in range(nb)]), cls)
            _cmp(ctx, "mo-energies", d.mo.energies, _arr(ctx, ea + eb_), cls)
            _cmp(ctx, "mo-occupations", d.mo.occs, np.array([1.0, 1.0, 1.0, 0.0]), cls)
        if not props:
            ctx.oblige("no-properties-invented", not d.one_rdms and not d.atcharges and not d.moments and d.atgradient is None
                       and d.athessian is None and d.atfrozen is None, cls=cls)
            return
        for key, lab in (("scf", "Total SCF Density"), ("scf_spin", "Spin SCF Density"), ("post_scf_ao", "Total MP2 Density"),
                         ("post_scf_spin_ao", "Spin MP2 Density")):
            _cmp(ctx, f"one_rdms.{key}", d.one_rdms.get(key), _tri_dense(ctx, fields[lab], nb), cls)
        for key, lab in (("mulliken", "Mulliken Charges"), ("esp", "ESP Charges"), ("npa", "NPA Charges"), ("mbs", "MBS Charges"),
                         ("hirshfeld", "Type 6 Charges"), ("cm5", "Type 7 Charges")):
            _cmp(ctx, f"atcharges.{key}", d.atcharges.get(key), _arr(ctx, fields[lab]), cls)
        _cmp(ctx, "atgradient", d.atgradient, _arr(ctx, [fields["Cartesian Gradient"][:3], fields["Cartesian Gradient"][3:]]), cls)
        _cmp(ctx, "athessian", d.athessian, _tri_dense(ctx, fields["Cartesian Force Constants"], 6), cls)
        _cmp(ctx, "dipole", d.moments.get((1, "c")), _arr(ctx, fields["Dipole Moment"]), cls)
        xx, yy, zz, xy, xz, yz = fields["Quadrupole Moment"]
        _cmp(ctx, "quadrupole-alphabetical", d.moments.get((2, "c")), _arr(ctx, [xx, xy, xz, yy, yz, zz] if not twin else [xx, yy, zz, xy, xz, yz]), cls)
        _cmp(ctx, "polarizability", d.extra.get("polarizability_tensor"), _tri_dense(ctx, fields["Polarizability"], 3), cls)
        ctx.oblige("atfrozen", d.atfrozen is not None and list(d.atfrozen) == [False, True], cls=cls, detail=repr(d.atfrozen))


def h_fchk_trajectory(ctx, kind="Opt", npoint=2):
    """Optimisation / IRC trajectory in an FCHK file: one object per step, in file order."""
    import iodata.api as api
    mods = rt._fmt_modules("fchk")
    with stubbed(*mods):
        atoms = [(8, 8.0), (1, 1.0)]
        nsteps = [2, 1, 3][:npoint]
        points = []
        for ip, n in enumerate(nsteps):
            steps = []
            for st in range(n):
                tag = f"p{ip}s{st}"
                steps.append((ctx.real(tag + "E", lo=-9e4, hi=0, default=-75.0 - 0.1 * st), ctx.real(tag + "r", lo=-9, hi=9, default=0.1 * st),
                              [[ctx.real(f"{tag}x{i}_{k}", lo=-90, hi=90, default=0.5 * k - i + 0.01 * st) for k in range(3)] for i in range(2)],
                              [[ctx.real(f"{tag}g{i}_{k}", lo=-9, hi=9, default=0.05 * k - 0.02 * i) for k in range(3)] for i in range(2)]))
            points.append(steps)
        text = L.write_fchk_trajectory(dict(title="trajectory", kind=kind, atoms=atoms, points=points))
        path = ctx.tmp_path("t.fchk")
        ctx.write_text(path, text)
        ds, err = _load(ctx, api, path, many=True)
        cls = f"fchk-trajectory,{kind},points={npoint}"
        ctx.oblige("well-formed-file-loads", err is None, cls=cls, detail=f"{err} / {getattr(err, '__cause__', None)!r}")
        if err is not None:
            return
        flat = [(ip, ist, st) for ip, steps in enumerate(points) for ist, st in enumerate(steps)]
        ctx.oblige("one-object-per-step", len(ds) == len(flat), cls=cls, detail=f"{len(ds)} vs {len(flat)}")
        for d, (ip, ist, st) in zip(ds, flat):
            _cmp(ctx, "energy", d.energy, st[0], cls)
            _cmp(ctx, "atcoords", d.atcoords, _arr(ctx, st[2]), cls)
            _cmp(ctx, "atgradient", d.atgradient, _arr(ctx, st[3]), cls)
            _cmp(ctx, "atnums", np.asarray(d.atnums), np.array([8, 1]), cls)
            ctx.oblige("step-bookkeeping", d.extra.get("ipoint") == ip and d.extra.get("istep") == ist and
                       d.extra.get("npoint") == len(points) and d.extra.get("nstep") == len(points[ip]), cls=cls,
                       detail=str({k: d.extra.get(k) for k in ("ipoint", "istep", "npoint", "nstep")}))
            if kind == "IRC":
                _cmp(ctx, "reaction-coordinate", d.extra.get("reaction_coordinate"), st[1], cls)


# ------------------------------------------------------------------------------------------ Gaussian input
def h_gaussian_input(ctx, natom=2, nlink0=1, nroute=1, ntitle=1):
    import iodata.api as api
    mods = rt._fmt_modules("gaussianinput")
    with stubbed(*mods):
        zs = [8, 1, 17, 2][:natom]
        atoms = [(z, *(ctx.real(f"x{i}_{k}", lo=-900, hi=900, default=0.9 * k - i) for k in range(3))) for i, z in enumerate(zs)]
        m = dict(link0=["%chk=water.chk", "%mem=2GB"][:nlink0], route=["# HF/6-31G(d) opt", "  scf=tight"][:nroute],
                 title=["water molecule", "second title line"][:ntitle], charge=0, mult=1, atoms=atoms)
        path = ctx.tmp_path("m.com")
        ctx.write_text(path, L.write_gaussian_input(m))
        d, err = _load(ctx, api, path)
        cls = f"gaussianinput,n={natom},link0={nlink0},route={nroute},title={ntitle}"
        ctx.oblige("well-formed-file-loads", err is None, cls=cls, detail=f"{err} / {getattr(err, '__cause__', None)!r}")
        if err is not None:
            return
        _cmp(ctx, "atnums", np.asarray(d.atnums), np.array(zs), cls)
        _cmp(ctx, "atcoords-angstrom-to-bohr", d.atcoords, _arr(ctx, [[a[1] * L.ANGSTROM, a[2] * L.ANGSTROM, a[3] * L.ANGSTROM] for a in atoms]), cls)
        _cmp(ctx, "title", d.title, " ".join(m["title"]), cls)


# ------------------------------------------------------------------------------------------ MOL2
def h_mol2(ctx, natom=3):
    import iodata.api as api
    mods = rt._fmt_modules("mol2")
    with stubbed(*mods):
        atoms = []
        zs = []
        for i in range(natom):
            sym = ["C", "O", "Cl", "H"][i % 4]
            zs.append({"C": 6, "O": 8, "Cl": 17, "H": 1}[sym])
            x, y, z = (ctx.real(f"x{i}_{k}", lo=-900, hi=900, default=1.5 * k - i) for k in range(3))
            q = ctx.real(f"q{i}", lo=-9, hi=9, default=-0.1 * i)
            atoms.append((f"{sym}{i + 1}", x, y, z, f"{sym}.3" if sym != "H" else "H", q))
        bonds = []
        if natom > 1:
            t = ctx.choice(["1", "2", "3", "ar", "un"], label="btype")
            bonds.append((1, natom, t))
        text = L.write_mol2(dict(title="lig", atoms=atoms, bonds=bonds))
        path = ctx.tmp_path("m.mol2")
        ctx.write_text(path, text)
        d, err = _load(ctx, api, path)
        cls = f"mol2,n={natom}"
        ctx.oblige("well-formed-file-loads", err is None, cls=cls, detail=f"{err} / {getattr(err, '__cause__', None)!r}")
        if err is not None:
            return
        _cmp(ctx, "atnums", np.asarray(d.atnums), np.array(zs), cls)
        want = _arr(ctx, [[a[1] * L.ANGSTROM, a[2] * L.ANGSTROM, a[3] * L.ANGSTROM] for a in atoms])
        _cmp(ctx, "atcoords", d.atcoords, want, cls, tol=1e-3)
        _cmp(ctx, "charges", d.atcharges.get("mol2charges"), _arr(ctx, [a[5] for a in atoms]), cls, tol=1e-4)
        _cmp(ctx, "attypes", list(d.atffparams["attypes"]), [a[4] for a in atoms], cls)
        if bonds:
            code = {"1": 1, "2": 2, "3": 3, "ar": 4}.get(bonds[0][2], 8)
            ok = d.bonds is not None and np.asarray(d.bonds).tolist() == [[0, natom - 1, code]]
            ctx.oblige("bonds", ok, cls=f"{cls},{bonds[0][2]}", detail=str(None if d.bonds is None else np.asarray(d.bonds).tolist()))


# ------------------------------------------------------------------------------------------ XYZ / EXTXYZ
def h_xyz(ctx, nframes=2, ext=False, same_title=False, every_element=False):
    import iodata.api as api
    mods = rt._fmt_modules("extxyz" if ext else "xyz") + rt._fmt_modules("xyz")
    syms = ["O", "H", "Cl"]
    z = {"O": 8, "H": 1, "Cl": 17}
    if every_element:
        # symbols from the independent table (specs/periodic_ref.py), three consecutive elements per path
        k = ctx.choice(list(range(1, 119, 3)), label="Z")
        zs = [min(k + i, 118) for i in range(3)]
        syms = [L.NUM2SYM[v] for v in zs]
        z = dict(zip(syms, zs))
    with stubbed(*mods):
        frames = []
        for f in range(nframes):
            atoms = []
            for i in range(2 if same_title else 1 + (f + 1) % 3):
                sym = syms[i % 3]
                x, y, zc = (ctx.real(f"f{f}x{i}_{k}", lo=-900, hi=900, default=1.5 * k - i) for k in range(3))
                if ext:
                    m = ctx.real(f"f{f}m{i}", lo=0.5, hi=300, default=15.999)
                    fx, fy, fz = (ctx.real(f"f{f}F{i}_{k}", lo=-90, hi=90, default=0.01 * k) for k in range(3))
                    if same_title:
                        # two user-defined per-atom columns whose values differ from frame to frame
                        atoms.append((sym, x, y, zc, m, fx, fy, fz, ctx.real(f"f{f}q{i}", lo=-9, hi=9, default=0.1 * f - 0.3 * i),
                                      7 * f + i))
                    else:
                        atoms.append((sym, x, y, zc, m, fx, fy, fz))
                else:
                    atoms.append((sym, x, y, zc))
            fr = dict(title=f"frame {f}", atoms=atoms)
            if ext:
                fr["lattice"] = [[ctx.real(f"f{f}L{r}{c}", lo=-90, hi=90, default=(5.0 if r == c else 0.0)) for c in range(3)]
                                 for r in range(3)]
                fr["energy"] = ctx.real(f"f{f}E", lo=-1e4, hi=1e4, default=-76.4)
                fr["charge"] = ctx.real(f"f{f}Q", lo=-9, hi=9, default=1.0)
                if same_title and frames:
                    # molecular-dynamics output without per-frame numbers in the comment line: byte-identical title lines
                    for key in ("lattice", "energy", "charge"):
                        fr[key] = frames[0][key]
            frames.append(fr)
        text = (L.write_extxyz if ext else L.write_xyz)(dict(frames=frames, custom=same_title))
        path = ctx.tmp_path("m.extxyz" if ext else "m.xyz")
        ctx.write_text(path, text)
        ds, err = _load(ctx, api, path, many=True)
        cls = "extxyz" if ext else "xyz"
        ctx.oblige("well-formed-file-loads", err is None, cls=cls, detail=f"{err} / {getattr(err, '__cause__', None)!r}")
        if err is not None:
            return
        ctx.oblige("one-object-per-frame", len(ds) == nframes, cls=cls, detail=str(len(ds)))
        for d, fr in zip(ds, frames):
            _cmp(ctx, "atnums", np.asarray(d.atnums), np.array([z[a[0]] for a in fr["atoms"]]), cls)
            want = _arr(ctx, [[a[1] * L.ANGSTROM, a[2] * L.ANGSTROM, a[3] * L.ANGSTROM] for a in fr["atoms"]])
            _cmp(ctx, "atcoords", d.atcoords, want, cls, tol=1e-6)
            if ext:
                _cmp(ctx, "atmasses", d.atmasses, _arr(ctx, [a[4] * L.AMU for a in fr["atoms"]]), cls, tol=("rel", 1e-6))
                # documented exception: energy and forces are passed through unconverted (gradient = -force)
                _cmp(ctx, "atgradient", d.atgradient, _arr(ctx, [[-a[5], -a[6], -a[7]] for a in fr["atoms"]]), cls, tol=1e-7)
                _cmp(ctx, "energy", d.energy, fr["energy"], cls, tol=1e-7)
                _cmp(ctx, "charge", d.charge, fr["charge"], cls, tol=1e-3)
                wl = _arr(ctx, [[v * L.ANGSTROM for v in row] for row in fr["lattice"]])
                _cmp(ctx, "cellvecs", d.cellvecs, wl, cls, tol=1e-6)
                if same_title:
                    _cmp(ctx, "extra.q-of-this-frame", d.extra.get("q"), _arr(ctx, [a[8] for a in fr["atoms"]]), cls, tol=1e-5)
                    _cmp(ctx, "extra.site-of-this-frame", np.asarray(d.extra.get("site")), np.array([a[9] for a in fr["atoms"]]), cls)
            else:
                _cmp(ctx, "title", d.title, fr["title"], cls)


# ------------------------------------------------------------------------------------------ VASP
def h_vasp(ctx, kind="poscar", direct=True, selective=False, shape=(2, 1, 3)):
    import iodata.api as api
    mods = rt._fmt_modules("poscar") + (rt._fmt_modules(kind) if kind != "poscar" else [])
    with stubbed(*mods):
        scale = ctx.choice([1.0, 2.5], label="scale")
        if kind == "chgcar":
            # the density is the stored value divided by the cell volume: keep the determinant a monomial
            cell = [[0.0] * 3 for _ in range(3)]
            for r in range(3):
                for c in range(r + 1):
                    if r == c:
                        cell[r][c] = ctx.real(f"c{r}{c}", lo=0.5, hi=30, default=4.0 + r)
                        ctx.declare_reciprocal(cell[r][c], f"inv_c{r}") if ctx.mode == "sym" else None
                    else:
                        cell[r][c] = ctx.real(f"c{r}{c}", lo=-30, hi=30, default=0.2 * (r - c))
        else:
            cell = [[ctx.real(f"c{r}{c}", lo=-30, hi=30, default=(4.0 + r if r == c else 0.2 * (r - c))) for c in range(3)]
                    for r in range(3)]
        species = [(8, 1), (1, 2)]
        pos = [[ctx.real(f"p{i}_{k}", lo=-5, hi=5, default=0.1 * (i + 1) * (k + 1)) for k in range(3)] for i in range(3)]
        m = dict(title="cell", scale=scale, cell=cell, species=species, direct=direct, selective=selective, positions=pos)
        grid = None
        if kind != "poscar":
            n0, n1, n2 = shape
            data = [[[ctx.real(f"g{i0}{i1}{i2}", default=0.5 + i0 + 2 * i1 + 4 * i2) for i2 in range(n2)] for i1 in range(n1)]
                    for i0 in range(n0)]
            grid = dict(shape=shape, data=data)
        text = L.write_vasp(m, grid)
        name = {"poscar": "POSCAR", "chgcar": "CHGCAR", "locpot": "LOCPOT"}[kind]
        path = ctx.tmp_path(name)
        ctx.write_text(path, text)
        d, err = _load(ctx, api, path)
        cls = f"{kind},direct={direct},sel={selective}"
        ctx.oblige("well-formed-file-loads", err is None, cls=cls, detail=f"{err} / {getattr(err, '__cause__', None)!r}")
        if err is not None:
            return
        _cmp(ctx, "atnums", np.asarray(d.atnums), np.array([8, 1, 1]), cls)
        f = L.ANGSTROM * scale
        wc = _arr(ctx, [[v * f for v in row] for row in cell])
        _cmp(ctx, "cellvecs", d.cellvecs, wc, cls, tol=1e-9)
        if direct:
            wp = [[sum(pos[i][r] * cell[r][c] * f for r in range(3)) for c in range(3)] for i in range(3)]
        else:
            wp = [[pos[i][c] * f for c in range(3)] for i in range(3)]
        _cmp(ctx, "atcoords", d.atcoords, _arr(ctx, wp), cls, tol=1e-8)
        if grid is not None:
            n0, n1, n2 = shape
            ctx.oblige("grid-shape", d.cube is not None and d.cube.data.shape == tuple(shape), cls=cls)
            if kind == "locpot":
                wd = [[[data[i0][i1][i2] * L.ELECTRONVOLT for i2 in range(n2)] for i1 in range(n1)] for i0 in range(n0)]
                _cmp(ctx, "grid-values-in-hartree", d.cube.data, _arr(ctx, wd), cls, tol=("rel", 1e-9))
            else:
                # CHGCAR stores density * cell volume (volume in bohr^3 after conversion)
                a = [[v * f for v in row] for row in cell]
                det = (a[0][0] * (a[1][1] * a[2][2] - a[1][2] * a[2][1]) - a[0][1] * (a[1][0] * a[2][2] - a[1][2] * a[2][0])
                       + a[0][2] * (a[1][0] * a[2][1] - a[1][1] * a[2][0]))
                if ctx.mode == "sym":
                    ctx.assume(det > 0.001)
                    parts = [ctx.approx(d.cube.data[i0, i1, i2] * det, data[i0][i1][i2], 1e-7)
                             for i0 in range(n0) for i1 in range(n1) for i2 in range(n2)]
                    ctx.oblige("grid-values-are-density", And(*parts), cls=cls, timeout_ms=60000)
                elif det > 0.001:
                    wd = np.array(data, dtype=float) / det
                    _cmp(ctx, "grid-values-are-density", d.cube.data, wd, cls, tol=("rel", 1e-9))
            wa = _arr(ctx, [[cell[r][c] * f / shape[r] for c in range(3)] for r in range(3)])
            _cmp(ctx, "grid-axes", d.cube.axes, wa, cls, tol=1e-9)


# ------------------------------------------------------------------------------------------ CUBE
def h_cube(ctx, shape=(1, 2, 7)):
    import iodata.api as api
    mods = rt._fmt_modules("cube")
    with stubbed(*mods):
        n0, n1, n2 = shape
        origin = [ctx.real(f"o{k}", lo=-900, hi=900, default=-1.0 * k) for k in range(3)]
        axes = [[ctx.real(f"a{r}{c}", lo=-900, hi=900, default=(0.2 if r == c else 0.0)) for c in range(3)] for r in range(3)]
        atoms = [(8, ctx.real("q0", lo=0.5, hi=99, default=8.0), *(ctx.real(f"x0_{k}", lo=-900, hi=900, default=0.1 * k) for k in range(3))),
                 (1, 0.0, *(ctx.real(f"x1_{k}", lo=-900, hi=900, default=1.0 + k) for k in range(3)))]
        data = [[[ctx.real(f"g{i0}{i1}{i2}", default=0.5 + i0 + 2 * i1 + 4 * i2) for i2 in range(n2)] for i1 in range(n1)]
                for i0 in range(n0)]
        text = L.write_cube(dict(title="dens", origin=origin, axes=axes, shape=shape, atoms=atoms, data=data))
        path = ctx.tmp_path("m.cube")
        ctx.write_text(path, text)
        d, err = _load(ctx, api, path)
        cls = f"cube,{shape}"
        ctx.oblige("well-formed-file-loads", err is None, cls=cls, detail=f"{err} / {getattr(err, '__cause__', None)!r}")
        if err is not None:
            return
        _cmp(ctx, "atnums", np.asarray(d.atnums), np.array([8, 1]), cls)
        _cmp(ctx, "atcoords", d.atcoords, _arr(ctx, [list(a[2:]) for a in atoms]), cls, tol=1e-6)
        # a zero nuclear-charge column means "same as the atomic number" (documented in the reader)
        _cmp(ctx, "atcorenums", d.atcorenums, _arr(ctx, [atoms[0][1], 1.0]), cls, tol=1e-6)
        _cmp(ctx, "origin", d.cube.origin, _arr(ctx, origin), cls, tol=1e-6)
        _cmp(ctx, "axes", d.cube.axes, _arr(ctx, axes), cls, tol=1e-6)
        _cmp(ctx, "data", d.cube.data, _arr(ctx, data), cls, tol=("rel", 1e-5))
        _cmp(ctx, "cellvecs", d.cellvecs, _arr(ctx, [[axes[r][c] * shape[r] for c in range(3)] for r in range(3)]), cls, tol=1e-5)


# ------------------------------------------------------------------------------------------ CHARMM
def h_crd(ctx, natom=2):
    import iodata.api as api
    mods = rt._fmt_modules("charmm")
    with stubbed(*mods):
        atoms = []
        for i in range(natom):
            x, y, z = (ctx.real(f"x{i}_{k}", lo=-900, hi=900, default=1.5 * k - i) for k in range(3))
            w = ctx.real(f"w{i}", lo=0, hi=300, default=12.011)
            # two segments: the sequential residue number (column 2) runs on, the residue id (column 9) restarts in each segment
            seg = "PROA" if i < (natom + 1) // 2 else "WATB"
            resid = 5 + i if seg == "PROA" else 1 + i - (natom + 1) // 2
            atoms.append((1 + i, ["ALA", "GLY", "TIP3"][i % 3], ["N", "CA", "OH2"][i % 3], x, y, z, seg, resid, w))
        text = L.write_crd(dict(title="pep", atoms=atoms))
        path = ctx.tmp_path("m.crd")
        ctx.write_text(path, text)
        d, err = _load(ctx, api, path)
        cls = f"crd,n={natom}"
        ctx.oblige("well-formed-file-loads", err is None, cls=cls, detail=f"{err} / {getattr(err, '__cause__', None)!r}")
        if err is not None:
            return
        want = _arr(ctx, [[a[3] * L.ANGSTROM, a[4] * L.ANGSTROM, a[5] * L.ANGSTROM] for a in atoms])
        _cmp(ctx, "atcoords", d.atcoords, want, cls, tol=1e-3)
        _cmp(ctx, "atmasses", d.atmasses, _arr(ctx, [a[8] * L.AMU for a in atoms]), cls, tol=("rel", 1e-5))
        _cmp(ctx, "attypes", list(d.atffparams["attypes"]), [a[2] for a in atoms], cls)
        _cmp(ctx, "resnames", list(d.atffparams["resnames"]), [a[1] for a in atoms], cls)
        _cmp(ctx, "resnums", np.asarray(d.atffparams["resnums"]), np.array([a[0] for a in atoms]), cls)
        _cmp(ctx, "segid", list(d.extra["segid"]), [a[6] for a in atoms], cls)
        _cmp(ctx, "resid", np.asarray(d.extra["resid"]), np.array([a[7] for a in atoms]), cls)
        _cmp(ctx, "title", d.title.strip(), "pep", cls)


# ------------------------------------------------------------------------------------------ FCIDUMP
def h_fcidump(ctx, n=2):
    import iodata.api as api
    mods = rt._fmt_modules("fcidump")
    with stubbed(*mods):
        # chemists' (ij|kl); one representative per 8-fold orbit, written with a chosen member of the orbit
        two = []
        vals = {}
        for i in range(1, n + 1):
            for j in range(1, i + 1):
                for k in range(1, n + 1):
                    for l in range(1, k + 1):
                        if (i * (i + 1)) // 2 + j >= (k * (k + 1)) // 2 + l:
                            v = ctx.real(f"v{i}{j}{k}{l}", nonzero=True, default=0.1 * (i + j + k + l) + 0.01 * i)
                            vals[(i, j, k, l)] = v
                            member = ctx.choice([(i, j, k, l), (j, i, l, k), (k, l, i, j), (l, k, j, i)], label="member") \
                                if (i, j, k, l) == (n, 1, n, 1) else (i, j, k, l)
                            two.append((member, v))
        one = [((i, j), ctx.real(f"h{i}{j}", nonzero=True, default=0.3 * i - 0.1 * j)) for i in range(1, n + 1) for j in range(1, i + 1)]
        core_e = ctx.real("ecore", default=0.7)
        text = L.write_fcidump(dict(norb=n, nelec=2, ms2=0, two=two, one=one, core=core_e))
        path = ctx.tmp_path("FCIDUMP")
        ctx.write_text(path, text)
        d, err = _load(ctx, api, path)
        cls = f"fcidump,n={n}"
        ctx.oblige("well-formed-file-loads", err is None, cls=cls, detail=f"{err} / {getattr(err, '__cause__', None)!r}")
        if err is not None:
            return
        _cmp(ctx, "core_energy", d.core_energy, core_e, cls, tol=("rel", 1e-15))
        h = d.one_ints["core_mo"]
        parts = []
        for (i, j), v in one:
            parts += [ctx.eq(h[i - 1, j - 1], v), ctx.eq(h[j - 1, i - 1], v)]
        ctx.oblige("one-electron-integrals-symmetric", And(*parts), cls=cls)
        g = d.two_ints["two_mo"]
        parts = []
        # physicists' <ik|jl> = chemists' (ij|kl), all 8 symmetry partners
        for (i, j, k, l), v in vals.items():
            for (a, b, c, e) in {(i, j, k, l), (j, i, k, l), (i, j, l, k), (j, i, l, k), (k, l, i, j), (l, k, i, j), (k, l, j, i), (l, k, j, i)}:
                parts.append(ctx.eq(g[a - 1, c - 1, b - 1, e - 1], v))
        ctx.oblige("two-electron-integrals-physicists-notation-8-fold", And(*parts), cls=cls)
        _cmp(ctx, "nelec", d.nelec, 2, cls)


# ------------------------------------------------------------------------------------------ WFN
WFN_ORDERS = {
    "standard-p": [2, 3, 4], "rotated-p": [3, 4, 2], "gaussian-d": [5, 6, 7, 8, 9, 10], "alphabetical-d": [5, 8, 9, 6, 10, 7],
    "swapped-d": [6, 5, 7, 8, 9, 10],
}


def h_wfn(ctx, order="standard-p", nprim=2, twin=False):
    """WFN reader: every MO coefficient stays attached to its primitive (centre, exponent, Cartesian function)."""
    import iodata.api as api
    from specs import basisfun as BF
    mods = rt._fmt_modules("wfn")
    with stubbed(*mods):
        types = WFN_ORDERS[order]
        exps_s = [5.033151, 1.169596][:nprim]
        exps_x = [12.5, 0.3713, 2.9][:nprim]
        prims = []
        for e in exps_s:                       # an s shell on centre 1 first
            prims.append((1, 1, e))
        for t in types:                        # then one contracted shell on centre 2: per function type all primitives
            for e in exps_x:
                prims.append((2, t, e))
        nmo = 2
        mos = []
        for i in range(nmo):
            co = [ctx.real(f"c{i}_{k}", lo=-9, hi=9, default=0.1 * (k + 1) * (1 if (k + i) % 2 else -1)) for k in range(len(prims))]
            mos.append((2.0, ctx.real(f"e{i}", lo=-90, hi=90, default=-1.0 + i), co))
        atoms = [(8, 0.0, 0.0, 0.2), (1, 0.0, 1.4, -0.9)]
        text = L.write_wfn(dict(title="wfn layout", atoms=atoms, prims=prims, mos=mos, energy=-75.5, virial=2.0001))
        path = ctx.tmp_path("m.wfn")
        ctx.write_text(path, text)
        d, err = _load(ctx, api, path)
        cls = f"wfn,{order},nprim={nprim}"
        ctx.oblige("well-formed-file-loads", err is None, cls=cls, detail=f"{err} / {getattr(err, '__cause__', None)!r}")
        if err is not None:
            return
        funcs = BF.basis_functions(BF.shells_of(d.obasis), d.obasis.conventions, normalized_prims=False)
        ctx.oblige("orbital-count", d.mo.coeffs.shape[1] == nmo, cls=cls)
        for i in range(nmo):
            got = BF.combine(list(d.mo.coeffs[:, i]), funcs)
            want = {}
            for k, (c, t, e) in enumerate(prims):
                pw = L.WFN_TYPES[t]
                coef = mos[i][2][k] * (2.0 if twin and k == 1 else 1.0)
                BF.add_to(want, (c - 1, BF.akey(e), "c", sum(pw), pw), coef)
            parts = []
            ok = True
            for key in sorted(set(got) | set(want), key=repr):
                r = ctx.approx(got.get(key, 0.0), want.get(key, 0.0), 1e-6, atol=1e-9)
                if r is False:
                    ok = False
                    break
                if r is not True:
                    parts.append(r)
            ctx.oblige("coefficient-stays-with-its-primitive", (And(*parts) if parts else True) if ok else False, cls=cls,
                       detail=f"orbital {i}")
            _cmp(ctx, "orbital-energy", d.mo.energies[i], mos[i][1], cls, tol=1e-6)


def h_wfx(ctx, order="standard-p", nprim=2, spin="restricted", extras=True):
    """WFX reader: coefficients stay with their primitives; nuclei, charges, energies, gradient rows stay with their atoms."""
    import iodata.api as api
    from specs import basisfun as BF
    mods = rt._fmt_modules("wfx")
    with stubbed(*mods):
        types = WFN_ORDERS[order]
        exps_s = [5.033151, 1.169596][:nprim]
        exps_x = [12.5, 0.3713, 2.9][:nprim]
        prims = [(1, 1, e) for e in exps_s] + [(2, t, e) for t in types for e in exps_x]
        nmo = 2 if spin == "restricted" else 3
        spins = ["Alpha and Beta"] * 2 if spin == "restricted" else ["Alpha", "Alpha", "Beta"]
        occs = [2.0, 2.0] if spin == "restricted" else [1.0, 1.0, 1.0]
        mos = []
        for i in range(nmo):
            co = [ctx.real(f"c{i}_{k}", lo=-9, hi=9, default=0.1 * (k + 1) * (1 if (k + i) % 2 else -1)) for k in range(len(prims))]
            mos.append((occs[i], ctx.real(f"e{i}", lo=-90, hi=90, default=-1.0 + i), spins[i], co))
        atoms = [("O1", 8, ctx.real("q0", lo=0, hi=99, default=8.0), *(ctx.real(f"x0_{k}", lo=-90, hi=90, default=0.1 * k) for k in range(3))),
                 ("H2", 1, ctx.real("q1", lo=0, hi=99, default=1.0), *(ctx.real(f"x1_{k}", lo=-90, hi=90, default=1.1 - 0.4 * k) for k in range(3)))]
        m = dict(title="wfx layout", atoms=atoms, prims=prims, mos=mos, energy=ctx.real("etot", lo=-9e4, hi=0, default=-75.5),
                 virial=ctx.real("vir", lo=1, hi=3, default=2.0001), net_charge=0.0, nelec=4 if spin == "restricted" else 3,
                 nalpha=2, nbeta=2 if spin == "restricted" else 1)
        if extras:
            m.update(mult=1 if spin == "restricted" else 2, model="Restricted HF", ncore=2,
                     nuc_virial=ctx.real("nv", lo=-9, hi=9, default=0.3), full_virial=ctx.real("fv", lo=1, hi=3, default=2.002),
                     # gradient rows listed in reverse atom order: they are identified by the nuclear name
                     gradient=[("H2", *(ctx.real(f"g1_{k}", lo=-9, hi=9, default=0.02 * k) for k in range(3))),
                               ("O1", *(ctx.real(f"g0_{k}", lo=-9, hi=9, default=-0.03 * k) for k in range(3)))])
        path = ctx.tmp_path("m.wfx")
        ctx.write_text(path, L.write_wfx(m))
        d, err = _load(ctx, api, path)
        cls = f"wfx,{order},nprim={nprim},{spin},extras={extras}"
        ctx.oblige("well-formed-file-loads", err is None, cls=cls, detail=f"{err} / {getattr(err, '__cause__', None)!r}")
        if err is not None:
            return
        _cmp(ctx, "atnums", np.asarray(d.atnums), np.array([8, 1]), cls)
        _cmp(ctx, "atcorenums", d.atcorenums, _arr(ctx, [a[2] for a in atoms]), cls)
        _cmp(ctx, "atcoords", d.atcoords, _arr(ctx, [list(a[3:6]) for a in atoms]), cls)
        _cmp(ctx, "energy", d.energy, m["energy"], cls)
        _cmp(ctx, "virial_ratio", d.extra.get("virial_ratio"), m["virial"], cls)
        _cmp(ctx, "title", d.title, "wfx layout", cls)
        if extras:
            _cmp(ctx, "atgradient-rows-by-nuclear-name", d.atgradient, _arr(ctx, [list(m["gradient"][1][1:]), list(m["gradient"][0][1:])]), cls)
            _cmp(ctx, "nuc_viral", d.extra.get("nuc_viral"), m["nuc_virial"], cls)
            _cmp(ctx, "full_virial_ratio", d.extra.get("full_virial_ratio"), m["full_virial"], cls)
            ctx.oblige("integer-extras", d.extra.get("num_core_electrons") == 2 and d.extra.get("spin_multi") == m["mult"]
                       and d.extra.get("model_name") == "Restricted HF" and d.extra.get("keywords") == "GTO", cls=cls)
        ctx.oblige("orbital-kind", d.mo.kind == spin, cls=cls, detail=d.mo.kind)
        _cmp(ctx, "occupations", d.mo.occs, np.array(occs), cls)
        funcs = BF.basis_functions(BF.shells_of(d.obasis), d.obasis.conventions, normalized_prims=False)
        ctx.oblige("orbital-count", d.mo.coeffs.shape[1] == nmo, cls=cls)
        for i in range(nmo):
            got = BF.combine(list(d.mo.coeffs[:, i]), funcs)
            want = {}
            for k, (c, t, e) in enumerate(prims):
                pw = L.WFN_TYPES[t]
                BF.add_to(want, (c - 1, BF.akey(e), "c", sum(pw), pw), mos[i][3][k])
            parts = []
            ok = True
            for key in sorted(set(got) | set(want), key=repr):
                r = ctx.approx(got.get(key, 0.0), want.get(key, 0.0), 1e-6, atol=1e-9)
                if r is False:
                    ok = False
                    break
                if r is not True:
                    parts.append(r)
            ctx.oblige("coefficient-stays-with-its-primitive", (And(*parts) if parts else True) if ok else False, cls=cls,
                       detail=f"orbital {i}")
            _cmp(ctx, "orbital-energy", d.mo.energies[i], mos[i][1], cls, tol=1e-6)


def h_molden_layout(ctx, fmt="molden", dkind="c", unit="AU", spin="restricted", pure_first=False, norb=2):
    """Molden / Molekel files in the published layout: nuclei, units, every MO coefficient on its documented function."""
    import iodata.api as api
    import iodata.formats.molden as molden
    from specs import basisfun as BF
    from specs.conventions_ref import DOCUMENTED
    mods = rt._fmt_modules(fmt)
    # the vendor-detection cascade is the subject of C05: the norm gate is opened so that arbitrary coefficients load
    gate = molden._is_normalized_properly
    molden._is_normalized_properly = lambda *a, **k: True
    try:
        with stubbed(*mods):
            zs = [8, 1]
            xyz = [[ctx.real(f"x{i}_{k}", lo=-90, hi=90, default=0.4 * k - 0.9 * i) for k in range(3)] for i in range(2)]
            dlab, nd = ("d", 6 if dkind == "c" else 5)
            shells = [(0, "s", 1, [(5.033151, 0.4), (1.169596, 0.7)]), (0, "p", 3, [(0.3803890, 1.0)]), (1, dlab, nd, [(1.9, 1.0)])]
            nb = 1 + 3 + nd
            n_a = norb
            ea = [ctx.real(f"ea{i}", lo=-900, hi=900, default=-1.0 + i) for i in range(n_a)]
            ca = [[ctx.real(f"ca{i}_{k}", lo=-9, hi=9, default=0.1 * (k + 1) - 0.3 * i) for k in range(nb)] for i in range(n_a)]
            if spin == "restricted":
                occa = [2.0] * 5 + [0.0] * (n_a - 5) if n_a >= 5 else [2.0] * n_a
                nel = int(sum(occa))
                beta = None
            else:
                occa = [1.0] * n_a
                eb = [ctx.real(f"eb{i}", lo=-900, hi=900, default=-0.7 + i) for i in range(n_a - 1)]
                cb = [[ctx.real(f"cb{i}_{k}", lo=-9, hi=9, default=0.05 * (k + 2) + 0.2 * i) for k in range(nb)] for i in range(n_a - 1)]
                occb = [1.0] * (n_a - 1)
                nel = int(sum(occa) + sum(occb))
                beta = (eb, cb, occb)
            charge = 9 - nel
            if fmt == "molden":
                atoms = [(z, *xyz[i]) for i, z in enumerate(zs)]
                mos = [("A1", ea[i], "Alpha", occa[i], ca[i]) for i in range(n_a)]
                if beta:
                    mos += [("A1", beta[0][i], "Beta", beta[2][i], beta[1][i]) for i in range(len(beta[0]))]
                text = L.write_molden_full(dict(title="layout", unit=unit, atoms=atoms, pure="[5D]" if dkind == "p" else "", pure_first=pure_first,
                                                shells=[(ic, lab, pr) for ic, lab, _n, pr in shells], mos=mos))
                path = ctx.tmp_path("m.molden")
                factor = 1.0 if unit.strip("()").upper() == "AU" else L.ANGSTROM
            else:
                qs = [ctx.real(f"q{i}", lo=-9, hi=9, default=0.3 - 0.6 * i) for i in range(2)]
                text = L.write_mkl(dict(charge=charge, mult=1 if spin == "restricted" else 2, atoms=[(z, *xyz[i]) for i, z in enumerate(zs)],
                                        charges=qs, shells=[(ic, lab.upper(), n, pr) for ic, lab, n, pr in shells],
                                        alpha=(ea, ca, occa), beta=beta))
                path = ctx.tmp_path("m.mkl")
                factor = L.ANGSTROM
            ctx.write_text(path, text)
            d, err = _load(ctx, api, path)
            cls = f"{fmt},d={dkind},{unit},{spin},norb={norb}"
            ctx.oblige("well-formed-file-loads", err is None, cls=cls, detail=f"{err} / {getattr(err, '__cause__', None)!r}")
            if err is not None:
                return
            _cmp(ctx, "atnums", np.asarray(d.atnums), np.array(zs), cls)
            _cmp(ctx, "atcoords-in-bohr", d.atcoords, _arr(ctx, [[v * factor for v in row] for row in xyz]), cls)
            if fmt == "molekel":
                _cmp(ctx, "mulliken-charges", d.atcharges.get("mulliken") if d.atcharges else None, _arr(ctx, qs), cls)
                ctx.oblige("charge-and-multiplicity", abs(float(d.charge) - charge) < 1e-9 and abs(float(d.spinpol) - (0 if spin == "restricted" else 1)) < 1e-9,
                           cls=cls, detail=f"{d.charge} {d.spinpol}")
            else:
                _cmp(ctx, "title", d.title, "layout", cls)
            ctx.oblige("orbital-kind", d.mo.kind == spin, cls=cls, detail=d.mo.kind)
            true_shells = [dict(icenter=ic, angmoms=[{"s": 0, "p": 1, "d": 2}[lab]], kinds=["p" if (lab == "d" and dkind == "p") else "c"],
                                exponents=[e for e, _ in pr], coeffs=[[c] for _, c in pr]) for ic, lab, _n, pr in shells]
            tfuncs = BF.basis_functions(true_shells, DOCUMENTED["molden"])
            funcs = BF.basis_functions(BF.shells_of(d.obasis), d.obasis.conventions)
            chans = [("alpha", d.mo.coeffsa, d.mo.energiesa, d.mo.occsa, ca, ea, occa)]
            if beta:
                chans.append(("beta", d.mo.coeffsb, d.mo.energiesb, d.mo.occsb, beta[1], beta[0], beta[2]))
            for name, co, en, oc, wc, we, wo in chans:
                ctx.oblige("orbital-count", co.shape[1] == len(wc), cls=cls, detail=f"{name}: {co.shape}")
                if co.shape[1] != len(wc):
                    continue
                for i in range(len(wc)):
                    got = BF.combine(list(co[:, i]), funcs)
                    want = BF.combine(list(wc[i]), tfuncs)
                    parts, ok = [], True
                    for key in sorted(set(got) | set(want), key=repr):
                        r = ctx.approx(got.get(key, 0.0), want.get(key, 0.0), 1e-6, atol=1e-9)
                        if r is False:
                            ok = False
                            break
                        if r is not True:
                            parts.append(r)
                    ctx.oblige("coefficient-on-its-documented-function", (And(*parts) if parts else True) if ok else False, cls=cls,
                               detail=f"{name} orbital {i}")
                    _cmp(ctx, "orbital-energy", en[i], we[i], cls, tol=1e-6)
                if spin == "restricted":
                    _cmp(ctx, "occupations", d.mo.occs, np.array(wo), cls)
                else:
                    _cmp(ctx, f"occupations-{name}", oc, np.array(wo), cls)
    finally:
        molden._is_normalized_properly = gate


def h_gaussian_log(ctx, nbasis=6, eri=True):
    """Integral dumps of a Gaussian log file: blocks of five columns, lower triangles, chemists' -> physicists' notation."""
    import iodata.api as api
    import iodata.formats.gaussianlog as glog
    mods = rt._fmt_modules("gaussianlog")
    with stubbed(*mods):
        mats = {}
        for key in ("overlap", "kinetic", "potential"):
            mats[key] = [[ctx.real(f"{key[0]}{i}_{j}", lo=-90, hi=90, default=0.01 * (i + 1) + 0.1 * j) for j in range(i + 1)] for i in range(nbasis)]
        m = dict(nbasis=nbasis, **mats)
        quads = []
        if eri:
            quads = [(1, 1, 1, 1), (2, 1, 1, 1), (2, 1, 2, 1), (2, 2, 1, 1)][:4 if nbasis > 1 else 1]
            if nbasis >= 3:
                quads.append((3, 2, 2, 1))
            m["eri"] = [(i, j, k, l, ctx.real(f"g{i}{j}{k}{l}", lo=-90, hi=90, default=0.1 * i + 0.01 * j + 0.3 * k - 0.02 * l)) for i, j, k, l in quads]
        path = ctx.tmp_path("m.log")
        ctx.write_text(path, L.write_gaussian_log(m))
        d, err = _load(ctx, api, path)
        cls = f"gaussianlog,nbasis={nbasis}"
        ctx.oblige("well-formed-file-loads", err is None, cls=cls, detail=f"{err} / {getattr(err, '__cause__', None)!r}")
        if err is not None:
            return
        for key, name in (("overlap", "olp"), ("kinetic", "kin_ao"), ("potential", "na_ao")):
            want = np.zeros((nbasis, nbasis), dtype=object if ctx.mode == "sym" else float)
            for i in range(nbasis):
                for j in range(i + 1):
                    want[i, j] = want[j, i] = mats[key][i][j]
            _cmp(ctx, f"one_ints.{name}", d.one_ints.get(name), want, cls)
        if eri:
            want = np.zeros((nbasis,) * 4, dtype=object if ctx.mode == "sym" else float)
            for i, j, k, l, v in m["eri"]:
                i, j, k, l = i - 1, j - 1, k - 1, l - 1
                # (ij|kl) with its eight-fold symmetry, stored as <ik|jl>
                for a, b, c, e in ((i, j, k, l), (j, i, k, l), (i, j, l, k), (j, i, l, k), (k, l, i, j), (l, k, i, j), (k, l, j, i), (l, k, j, i)):
                    want[a, c, b, e] = v
            _cmp(ctx, "two_ints.er_ao-physicists-notation", d.two_ints.get("er_ao"), want, cls)


def h_mwfn(ctx, dtype=2, spin="restricted"):
    """MWFN file in the published layout: nuclei (angstrom), basis, all orbitals with their coefficients."""
    import iodata.api as api
    from specs import basisfun as BF
    from specs.conventions_ref import DOCUMENTED
    mods = rt._fmt_modules("mwfn")
    with stubbed(*mods):
        zs = [8, 1]
        xyz = [[ctx.real(f"x{i}_{k}", lo=-90, hi=90, default=0.4 * k - 0.9 * i) for k in range(3)] for i in range(2)]
        qs = [8.0, 1.0]
        shells = [(0, 1, [5.033151, 1.169596], [0.4, 0.7]), (1, 1, [0.380389], [1.0]), (dtype, 2, [1.9], [1.0])]
        nb = 1 + 3 + (6 if dtype == 2 else 5)
        nmo = nb if spin == "restricted" else 2 * nb
        mos = []
        for i in range(nmo):
            typ = 0 if spin == "restricted" else (1 if i < nb else 2)
            occ = (2.0 if i < 5 else 0.0) if spin == "restricted" else (1.0 if (i % nb) < (5 if i < nb else 4) else 0.0)
            sym_i = i < 2 or i == nb           # a few orbitals fully symbolic, the rest concrete filler
            co = [ctx.real(f"c{i}_{k}", lo=-9, hi=9, default=0.1 * (k + 1) - 0.03 * i) if sym_i else 0.01 * (k + 1) - 0.002 * i for k in range(nb)]
            en = ctx.real(f"e{i}", lo=-900, hi=900, default=-1.0 + 0.1 * i) if sym_i else -1.0 + 0.1 * i
            mos.append((typ, en, occ, co))
        m = dict(wfntype=0 if spin == "restricted" else 1, charge=-1.0 if spin == "restricted" else 0.0,
                 naelec=5.0, nbelec=5.0 if spin == "restricted" else 4.0, energy=ctx.real("etot", lo=-9e4, hi=0, default=-75.5),
                 virial=ctx.real("vt", lo=1, hi=3, default=2.0017), atoms=[(z, q, *xyz[i]) for i, (z, q) in enumerate(zip(zs, qs))],
                 nbasis=nb, shells=shells, mos=mos)
        path = ctx.tmp_path("m.mwfn")
        ctx.write_text(path, L.write_mwfn(m))
        d, err = _load(ctx, api, path)
        cls = f"mwfn,d={dtype},{spin}"
        ctx.oblige("well-formed-file-loads", err is None, cls=cls, detail=f"{err} / {getattr(err, '__cause__', None)!r}")
        if err is not None:
            return
        _cmp(ctx, "atnums", np.asarray(d.atnums), np.array(zs), cls)
        _cmp(ctx, "atcorenums", d.atcorenums, np.array(qs), cls)
        _cmp(ctx, "atcoords-angstrom-to-bohr", d.atcoords, _arr(ctx, [[v * L.ANGSTROM for v in row] for row in xyz]), cls)
        _cmp(ctx, "energy", d.energy, m["energy"], cls)
        _cmp(ctx, "full_virial_ratio", d.extra.get("full_virial_ratio"), m["virial"], cls)
        ctx.oblige("orbital-kind", d.mo.kind == spin, cls=cls, detail=d.mo.kind)
        ctx.oblige("orbital-count", d.mo.coeffs.shape == (nb, nmo), cls=cls, detail=str(d.mo.coeffs.shape))
        true_shells = [dict(icenter=c - 1, angmoms=[abs(t)], kinds=["p" if t < 0 else "c"], exponents=list(es), coeffs=[[c_] for c_ in cs])
                       for t, c, es, cs in shells]
        tfuncs = BF.basis_functions(true_shells, DOCUMENTED["mwfn"])
        funcs = BF.basis_functions(BF.shells_of(d.obasis), d.obasis.conventions)
        for i in range(nmo):
            if not (i < 2 or i == nb):
                continue
            got = BF.combine(list(d.mo.coeffs[:, i]), funcs)
            want = BF.combine(list(mos[i][3]), tfuncs)
            parts, ok = [], True
            for key in sorted(set(got) | set(want), key=repr):
                r = ctx.approx(got.get(key, 0.0), want.get(key, 0.0), 1e-6, atol=1e-9)
                if r is False:
                    ok = False
                    break
                if r is not True:
                    parts.append(r)
            ctx.oblige("coefficient-on-its-documented-function", (And(*parts) if parts else True) if ok else False, cls=cls, detail=f"orbital {i}")
            _cmp(ctx, "orbital-energy", d.mo.energies[i], mos[i][1], cls, tol=1e-6)
        _cmp(ctx, "occupations", d.mo.occs, np.array([mo[2] for mo in mos]), cls)


def h_gamess(ctx, natom=2):
    """GAMESS punch file: nuclei (angstrom), energy, gradient, Hessian rows (the row counter wraps at 100), masses (amu)."""
    import iodata.api as api
    mods = rt._fmt_modules("gamess")
    ctx.scratch["width_policy"] = "touch"
    ctx.scratch["full_budget"] = 2
    with stubbed(*mods):
        zs = [[17, 1, 9, 6][i % 4] for i in range(natom)]
        probes = sorted({0, natom - 1})
        xyz = [[0.37 * (i % 11) - 1.5, 0.21 * (i % 7) + 0.4, -0.13 * (i % 5) + 0.01 * i] for i in range(natom)]
        grad = [[1e-3 * (i + 1), -2e-3 * (i + 2), 5e-4 * (i - 3)] for i in range(natom)]
        masses = [35.453 if z == 17 else float(2 * z) + 0.00782 for z in zs]
        for p in probes:
            xyz[p] = [ctx.real(f"x{p}_{k}", lo=-90, hi=90, default=0.5 * k - p) for k in range(3)]
            grad[p] = [ctx.real(f"g{p}_{k}", lo=-9, hi=9, default=0.01 * k - 0.002 * p) for k in range(3)]
            masses[p] = ctx.real(f"w{p}", lo=1, hi=300, default=12.0 + p)
        n3 = 3 * natom
        hess = [[1e-3 * ((i * 7 + j * 3) % 11) - 4e-3 if i != j else 0.5 + 0.01 * i for j in range(n3)] for i in range(n3)]
        # symbolic entries in the first row, in the last row, and (for 34 atoms and more) in the rows around the point where the
        # two-digit row counter of the file wraps (rows 99, 100, 101 in the file's numbering)
        srows = sorted({0, n3 - 1} | ({98, 99, 100} if n3 > 100 else set()))
        for i in srows:
            for j in sorted(j for j in {0, 4, 5, n3 - 1} if j < n3):
                hess[i][j] = ctx.real(f"h{i}_{j}", lo=-9, hi=9, default=0.1 + 1e-3 * i - 1e-4 * j)
        m = dict(title="independent punch file", atoms=[(z, *xyz[i]) for i, z in enumerate(zs)], energy=ctx.real("etot", lo=-9e4, hi=0, default=-959.9),
                 gradient=grad, hessian=hess, masses=masses)
        path = ctx.tmp_path("m.dat")
        ctx.write_text(path, L.write_gamess_punch(m))
        d, err = _load(ctx, api, path)
        cls = f"gamess,n={natom}"
        ctx.oblige("well-formed-file-loads", err is None, cls=cls, detail=f"{err} / {getattr(err, '__cause__', None)!r}")
        if err is not None:
            return
        _cmp(ctx, "atnums", np.asarray(d.atnums), np.array(zs), cls)
        _cmp(ctx, "atcoords-angstrom-to-bohr", d.atcoords, _arr(ctx, [[v * L.ANGSTROM for v in row] for row in xyz]), cls, tol=1e-8)
        _cmp(ctx, "energy", d.energy, m["energy"], cls)
        _cmp(ctx, "atgradient", d.atgradient, _arr(ctx, grad), cls)
        _cmp(ctx, "athessian-every-element-in-its-row-and-column", d.athessian, _arr(ctx, hess), cls)
        _cmp(ctx, "title", d.title, "independent punch file", cls)
        # masses are a recorded finding of C04 (left in amu by this reader): only their order is checked here
        ma = d.atmasses
        ctx.oblige("masses-attached-to-their-atoms", ma is not None and len(ma) == natom and all(
            (ctx.mode == "conc" or not isinstance(masses[i], Sym)) or True for i in range(natom)), cls=cls)
        for p in probes:
            r1 = ctx.approx(ma[p], masses[p], 1e-7)
            r2 = ctx.approx(ma[p], masses[p] * L.AMU, 1e-7)
            ctx.oblige("mass-of-probe-atom-comes-from-its-own-field", core.Or(r1, r2) if not (isinstance(r1, bool) and isinstance(r2, bool)) else (r1 or r2),
                       cls=cls, detail=f"atom {p}")


def jobs(tier):
    M = "harness.c03"
    out = []
    for natom, nbond in ((1, 0), (3, 2), (120, 2), (999, 1)):
        out.append(job("C03", f"sdf[n={natom},b={nbond}]", M, "h_sdf", dict(natom=natom, nbond=nbond), budget_s=300,
                       max_validate=4))
    for natom, big in ((1, False), (3, False), (4, True)):
        out.append(job("C03", f"pdb[n={natom},big={int(big)}]", M, "h_pdb", dict(natom=natom, big=big), budget_s=300,
                       max_validate=4))
    out.append(job("C03", "pdb[n=4,big=0,no-element-column]", M, "h_pdb", dict(natom=4, big=False, element_column=False),
                   budget_s=300, max_validate=4))
    for vel in (True, False):
        for tric in (True, False):
            out.append(job("C03", f"gro[vel={int(vel)},tric={int(tric)}]", M, "h_gro",
                           dict(natom=2, nframes=2 if vel and tric else 1, vel=vel, triclinic=tric, time=vel), budget_s=300,
                           max_validate=4))
    for n in (1, 3):
        out.append(job("C03", f"mol2[n={n}]", M, "h_mol2", dict(natom=n), max_validate=4))
    out.append(job("C03", "xyz", M, "h_xyz", dict(nframes=3, ext=False), max_validate=3))
    out.append(job("C03", "xyz[every-element]", M, "h_xyz", dict(nframes=2, ext=False, every_element=True), max_validate=3, max_paths=100))
    out.append(job("C03", "extxyz", M, "h_xyz", dict(nframes=2, ext=True), max_validate=3))
    out.append(job("C03", "extxyz[identical titles, user columns]", M, "h_xyz", dict(nframes=3, ext=True, same_title=True), max_validate=3))
    for kind in ("poscar", "chgcar", "locpot"):
        for direct in (True, False):
            for sel in ((False, True) if kind == "poscar" else (False,)):
                out.append(job("C03", f"{kind}[direct={int(direct)},sel={int(sel)}]", M, "h_vasp",
                               dict(kind=kind, direct=direct, selective=sel), budget_s=400, max_validate=3,
                               oblige_timeout_ms=60000))
    for shape in ((1, 1, 1), (1, 2, 7), (2, 1, 6)):
        out.append(job("C03", f"cube[{shape}]", M, "h_cube", dict(shape=shape), max_validate=3))
    out.append(job("C03", "crd", M, "h_crd", dict(natom=2), max_validate=3))
    out.append(job("C03", "crd[n=5]", M, "h_crd", dict(natom=5), max_validate=3))
    for order in WFN_ORDERS:
        for nprim in (1, 2):
            out.append(job("C03", f"wfn[{order},nprim={nprim}]", M, "h_wfn", dict(order=order, nprim=nprim), max_validate=2))
    for order in WFN_ORDERS:
        out.append(job("C03", f"wfx[{order},restricted]", M, "h_wfx", dict(order=order, nprim=2, spin="restricted", extras=True), max_validate=2))
    out.append(job("C03", "wfx[standard-p,unrestricted]", M, "h_wfx", dict(order="standard-p", nprim=1, spin="unrestricted", extras=False),
                   max_validate=2))
    for fmt in ("molden", "molekel"):
        for dkind in ("c", "p"):
            for spin in ("restricted", "unrestricted"):
                units = ("AU", "Angs", "(AU)", "(Angs)") if fmt == "molden" and dkind == "c" and spin == "restricted" else ("AU",)
                for unit in units:
                    out.append(job("C03", f"{fmt}-layout[d={dkind},{unit},{spin}]", M, "h_molden_layout",
                                   dict(fmt=fmt, dkind=dkind, unit=unit, spin=spin, pure_first=(spin == "restricted"),
                                        norb=7 if (fmt == "molekel" and spin == "restricted" and dkind == "c") else 2), max_validate=2))
    for nbasis in (1, 5, 6, 11):
        out.append(job("C03", f"gaussianlog[nbasis={nbasis}]", M, "h_gaussian_log", dict(nbasis=nbasis, eri=nbasis <= 6), max_validate=2))
    for dtype in (2, -2):
        for spin in ("restricted", "unrestricted"):
            out.append(job("C03", f"mwfn[d={dtype},{spin}]", M, "h_mwfn", dict(dtype=dtype, spin=spin), max_validate=2))
    for natom in (1, 2, 34) + ((41,) if tier == "thorough" else ()):
        out.append(job("C03", f"gamess-punch[n={natom}]", M, "h_gamess", dict(natom=natom), budget_s=600, max_validate=2, max_paths=300))
    out.append(job("C03", "wfn[twin]", M, "h_wfn", dict(order="standard-p", nprim=1, twin=True), expect="cex", max_validate=0))
    for basis in ("sp", "dcart", "dpure"):
        for spin in ("restricted", "unrestricted"):
            out.append(job("C03", f"fchk[{basis},{spin}]", M, "h_fchk", dict(basis=basis, spin=spin, props=basis == "sp"),
                           budget_s=300, max_validate=3))
    out.append(job("C03", "fchk[twin]", M, "h_fchk", dict(basis="sp", spin="restricted", props=True, twin=True), expect="cex", max_validate=0))
    for kind in ("Opt", "IRC"):
        for npoint in (1, 2) + ((3,) if tier == "thorough" else ()):
            out.append(job("C03", f"fchk-trajectory[{kind},points={npoint}]", M, "h_fchk_trajectory", dict(kind=kind, npoint=npoint),
                           max_validate=3))
    for natom, nl, nr, nt in ((1, 0, 1, 1), (2, 1, 1, 1), (3, 2, 2, 2)):
        out.append(job("C03", f"gaussianinput[n={natom},link0={nl},route={nr},title={nt}]", M, "h_gaussian_input",
                       dict(natom=natom, nlink0=nl, nroute=nr, ntitle=nt), max_validate=3))
    for n in (1, 2):
        out.append(job("C03", f"fcidump[n={n}]", M, "h_fcidump", dict(n=n), max_validate=3))
    if tier == "thorough":
        B = dict(budget_s=3000, max_validate=3)
        for natom, nbond in ((2, 1), (100, 3), (999, 3)):
            out.append(job("C03", f"sdf[n={natom},b={nbond}]+", M, "h_sdf", dict(natom=natom, nbond=nbond), **B))
        out.append(job("C03", "pdb[n=3,big=1]+", M, "h_pdb", dict(natom=3, big=True), **B))
        out.append(job("C03", "gro[3 frames]+", M, "h_gro", dict(natom=3, nframes=3, vel=True, triclinic=True, time=True), **B))
        out.append(job("C03", "xyz[5 frames]+", M, "h_xyz", dict(nframes=5, ext=False), **B))
        out.append(job("C03", "extxyz[4 frames]+", M, "h_xyz", dict(nframes=4, ext=True), **B))
        for shape in ((2, 3, 4), (3, 1, 5), (1, 1, 13)):
            out.append(job("C03", f"cube[{shape}]+", M, "h_cube", dict(shape=shape), **B))
        for order in WFN_ORDERS:
            out.append(job("C03", f"wfn[{order},nprim=3]+", M, "h_wfn", dict(order=order, nprim=3), **B))
            out.append(job("C03", f"wfx[{order},unrestricted]+", M, "h_wfx", dict(order=order, nprim=2, spin="unrestricted", extras=True), **B))
        for basis in ("dcart", "dpure"):
            for spin in ("restricted", "unrestricted"):
                out.append(job("C03", f"fchk[{basis},{spin},props]+", M, "h_fchk", dict(basis=basis, spin=spin, props=True), **B))
        for fmt in ("molden", "molekel"):
            for dkind in ("c", "p"):
                for spin in ("restricted", "unrestricted"):
                    for unit in (("AU", "Angs", "(AU)", "(Angs)") if fmt == "molden" else ("AU",)):
                        for pf in (False, True):
                            out.append(job("C03", f"{fmt}-layout[d={dkind},{unit},{spin},pure_first={int(pf)},norb=7]+", M, "h_molden_layout",
                                           dict(fmt=fmt, dkind=dkind, unit=unit, spin=spin, pure_first=pf, norb=7), **B))
        for nbasis in (2, 10, 12):
            out.append(job("C03", f"gaussianlog[nbasis={nbasis}]+", M, "h_gaussian_log", dict(nbasis=nbasis, eri=nbasis <= 6), **B))
        for n in (3,):
            out.append(job("C03", f"fcidump[n={n}]+", M, "h_fcidump", dict(n=n), **B))
    return out
