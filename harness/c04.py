"""C04 - every physical quantity is in atomic units, consistently across formats."""

from __future__ import annotations

import re
import warnings

import numpy as np

from symx import core, corpus
from symx.core import Sym
from symx.runner import job
from symx.stubs import stubbed
from harness import rt

# Independent CODATA values (2018 and 2022 adjustments; NIST SP 961).  A factor is
# "CODATA-consistent" if it lies within REL of both.
CODATA = {
    "bohr_m": (5.29177210903e-11, 5.29177210544e-11),
    "hartree_eV": (27.211386245988, 27.211386245981),
    "hartree_J": (4.3597447222071e-18, 4.3597447222060e-18),
    "me_kg": (9.1093837015e-31, 9.1093837139e-31),
    "au_time_s": (2.4188843265857e-17, 2.4188843265864e-17),
    "avogadro": (6.02214076e23, 6.02214076e23),
    "calorie_J": (4.184, 4.184),
}
REL = 1e-7


def ref(name):
    c = CODATA
    both = []
    for k in (0, 1):
        bohr, eh_ev, eh_j, me, t, na, cal = (c[x][k] for x in ("bohr_m", "hartree_eV", "hartree_J", "me_kg", "au_time_s", "avogadro", "calorie_J"))
        both.append({
            "angstrom": 1e-10 / bohr, "electronvolt": 1.0 / eh_ev, "meter": 1.0 / bohr, "nanometer": 1e-9 / bohr,
            "second": 1.0 / t, "picosecond": 1e-12 / t, "amu": 1e-3 / (me * na), "kcalmol": 1e3 * cal / na / eh_j,
            "calmol": cal / na / eh_j, "kjmol": 1e3 / na / eh_j, "one": 1.0,
            "nm/ps": (1e-9 / bohr) / (1e-12 / t), "debye": 1e-21 / 299792458.0 / (1.602176634e-19 * bohr),
        }[name])
    return both


META = dict(
    bounds=dict(
        quick="the unit constants of iodata.utils against CODATA 2018 and 2022 (relative 1e-7); readers of gamess, orcalog, "
              "cp2klog, qchemlog, gaussianinput, gaussianlog, mwfn, charmm, gromacs, fchk, wfn, wfx, molden, molekel, extxyz "
              "run on *tokenised corpus files* (every decimal number of a fixture replaced by a symbolic token): each "
              "dimensional attribute element must be (unit factor) x (one file number) with the factor the format "
              "prescribes; layout-writer files for sdf, pdb, gro, mol2, xyz, extxyz, poscar, chgcar, locpot, cube, crd are "
              "checked with CODATA-2018 constants by the harnesses of C03, which this check runs as well (jobs layout[...], "
              "tolerance 1e-7); writers follow from C02 (reader o writer = id); "
              "writing in a format with other units leaves the object's own values untouched (units-after-dump, 12 formats)",
        thorough="19 further corpus files of the same formats (cp2k, gromacs, fchk, wfn, wfx, qchem, gaussian input, mwfn, extxyz)"),
    outside=["attribute elements that are not affine in a single file number (reported as undecided)",
             "molden / molekel coordinates (the vendor cascade makes the tokenised run intractable; units are part of C05)",
             "orbital coefficients / basis exponents (dimensionless or covered by C01/C05)"],
    assumptions=["placeholder tokens for the numbers of fixture files; consistency checks inside some readers are avoided "
                 "by leaving the numbers of the named lines concrete (listed per job)", "exact reals"],
    explanation="symbolic execution of the real readers on tokenised corpus files; unit factors read off canonical forms",
)

# (format, fixture, fmt-arg, {attribute: unit}, line-skip regex or None)
CASES = [
    ("gamess", "PCGamess_PUNCH.dat", {"atcoords": "angstrom", "atmasses": "amu", "energy": "one", "atgradient": "one",
                                      "athessian": "one"}, None),
    ("orcalog", "water_orca.out", {"atcoords": "one", "energy": "one"}, None),
    ("cp2klog", "atom_si.cp2k.out", {"energy": "one"}, None),
    ("charmm", "crambin.crd", {"atcoords": "angstrom", "atmasses": "amu"}, None),
    ("gromacs", "water.gro", {"atcoords": "nanometer", "cellvecs": "nanometer", "extra.velocities": "nm/ps"}, None),
    ("fchk", "water_sto3g_hf_g03.fchk", {"atcoords": "one", "atmasses": "amu", "energy": "one"}, None),
    ("fchk", "peroxide_opt.fchk", {"atcoords": "one", "atmasses": "amu", "energy": "one", "atgradient": "one"}, None),
    ("wfn", "h2o_sto3g.wfn", {"atcoords": "one", "energy": "one"}, r"OCC NO"),
    ("wfx", "water_sto3g_hf.wfx", {"atcoords": "one", "energy": "one", "atgradient": "one"}, None),
    ("qchemlog", "water_hf_ccpvtz_freq_qchem.out", {"atcoords": "angstrom", "atmasses": "amu", "energy": "one",
                                                   "moments.(1, 'c')": "debye"}, r"Tot"),
    ("gaussianinput", "water.com", {"atcoords": "angstrom"}, None),
    ("mwfn", "ch3_hf_sto3g_fchk_multiwfn3.7.mwfn", {"atcoords": "angstrom", "energy": "one"}, r"Occ=|Naelec|Nbelec|E_tot"),
    ("extxyz", "mgo.xyz", {"atcoords": "angstrom", "cellvecs": "angstrom"}, None),
    ("json_qcschema", "@LiCl_molecule.json+masses", {"atcoords": "one", "atmasses": "amu"}, None),
]


# further fixtures of the same formats (thorough tier)
CASES_THOROUGH = [
    ("cp2klog", "atom_om2.cp2k.out", {"energy": "one"}, None),
    ("cp2klog", "carbon_gs_ae_contracted.cp2k.out", {"energy": "one"}, None),
    ("cp2klog", "carbon_sc_pp_uncontracted.cp2k.out", {"energy": "one"}, None),
    ("gromacs", "water2.gro", {"atcoords": "nanometer", "cellvecs": "nanometer", "extra.velocities": "nm/ps"}, None),
    ("fchk", "water_atcharges.fchk", {"atcoords": "one", "atmasses": "amu", "energy": "one"}, None),
    ("fchk", "ch3_hf_sto3g.fchk", {"atcoords": "one", "atmasses": "amu", "energy": "one"}, None),
    ("fchk", "water_dimer_ghost.fchk", {"atcoords": "one", "atmasses": "amu", "energy": "one"}, None),
    ("fchk", "peroxide_tsopt.fchk", {"atcoords": "one", "atmasses": "amu", "energy": "one", "atgradient": "one"}, None),
    ("fchk", "li_h_3-21G_hf_g09.fchk", {"atcoords": "one", "atmasses": "amu", "energy": "one"}, None),
    ("wfn", "he_spd_orbital.wfn", {"atcoords": "one", "energy": "one"}, r"OCC NO"),
    ("wfn", "lih_cation_uhf.wfn", {"atcoords": "one", "energy": "one"}, r"OCC NO"),
    ("wfx", "lih_cation_uhf.wfx", {"atcoords": "one", "energy": "one"}, None),
    ("wfx", "h2_ub3lyp_ccpvtz.wfx", {"atcoords": "one", "energy": "one"}, None),
    ("qchemlog", "h2o_dimer_eda_qchem5.3.out", {"atcoords": "angstrom", "energy": "one"}, r"Tot"),
    ("gaussianinput", "water_multi_title.com", {"atcoords": "angstrom"}, None),
    ("gaussianinput", "water_multi_route.com", {"atcoords": "angstrom"}, None),
    ("gaussianinput", "water.gjf", {"atcoords": "angstrom"}, None),
    ("mwfn", "ch3_rohf_sto3g_g03_fchk_multiwfn3.7.mwfn", {"atcoords": "angstrom", "energy": "one"}, r"Occ=|Naelec|Nbelec|E_tot"),
    ("extxyz", "al_fcc.xyz", {"atcoords": "angstrom", "cellvecs": "angstrom"}, None),
]


def h_constants(ctx):
    import iodata.utils as U
    for name in ("angstrom", "electronvolt", "meter", "nanometer", "second", "picosecond", "amu", "kcalmol", "calmol", "kjmol"):
        have = getattr(U, name, None)
        ok = have is not None and all(abs(have - r) <= REL * abs(r) for r in ref(name))
        ctx.oblige("unit-constant-is-CODATA-consistent", ok, cls=name, detail=f"{have!r} vs {ref(name)}")


def _get(data, path):
    if path.startswith("moments."):
        key = eval(path.split(".", 1)[1])
        return data.moments.get(key)
    return rt.get_attr(data, path)


def h_corpus(ctx, fmt="gamess", fn="PCGamess_PUNCH.dat", units=None, skip=None, twin=False):
    import iodata.api as api
    from iodata.utils import LoadError
    mods = rt._fmt_modules(fmt)
    import os
    if fn.startswith("@"):
        # a QCSchema molecule with a 'masses' field (no corpus fixture has masses without mass_numbers)
        import json as _json
        base = fn[1:].split("+")[0]
        doc = _json.load(open(os.path.join(os.path.dirname(api.__file__), "test", "data", base)))
        doc["masses"] = [6.941, 35.453]
        text = _json.dumps(doc, indent=2)
        fn = "generated_" + base
    else:
        fpath = os.path.join(os.path.dirname(api.__file__), "test", "data", fn)
        text = open(fpath).read()
    skip_re = re.compile(skip) if skip else None

    def skipf(t, m):
        if skip_re is None:
            return False
        ls = t.rfind("\n", 0, m.start()) + 1
        le = t.find("\n", m.end())
        return bool(skip_re.search(t[ls:le if le >= 0 else len(t)]))
    with stubbed(*mods):
        t2, table = corpus.tokenise(text, max_tokens=80000, skip=skipf, use_model=False)
        p = ctx.tmp_path(fn)
        ctx.write_text(p, t2)
        with warnings.catch_warnings(record=True):
            warnings.simplefilter("always")
            try:
                d = api.load_one(p, fmt=fmt)
            except LoadError as e:
                # numbers that make the fixture inconsistent (e.g. unequal exponents within a shell) are
                # rightly rejected by the reader: nothing to check on this path
                ctx.note(f"rejected by the reader: {e}")
                if e.__cause__ is not None:
                    # not a consistency check of the reader but an operation the engine or the reader could not carry out
                    raise core.PathAbort(f"fixture not loadable under symbolic numbers: {type(e.__cause__).__name__}: {e.__cause__}")
                return
    numbers = None
    if ctx.mode == "conc":
        numbers = [abs(float(m.group(0).replace("D", "E").replace("d", "e"))) for m in corpus.NUM.finditer(text)]
    for attr, unit in units.items():
        val = _get(d, attr)
        if val is None:
            ctx.record("attribute-is-in-atomic-units", f"{fmt}:{attr}:{unit}", None, detail="attribute absent in the fixture")
            continue
        want = ref(unit if not twin else "nanometer")
        elems = core._flat(val)
        if ctx.mode == "conc":
            # replay: every element must be factor * (some number of the file)
            arr = np.sort(np.array(numbers))
            bad = 0
            for e in elems[:400]:
                e = abs(float(e))
                if e < 1e-12:
                    continue
                t = e / want[0]
                i = np.searchsorted(arr, t)
                cand = [arr[j] for j in (i - 1, i) if 0 <= j < len(arr)]
                if not any(abs(c - t) <= 1e-6 * t for c in cand):
                    bad += 1
            ctx.oblige("attribute-is-in-atomic-units", bad == 0, cls=f"{fmt}:{attr}:{unit}")
            continue
        nz = ctx.normalizer()
        nsym = nbad = nund = 0
        sample = None
        for e in elems:
            if not isinstance(e, Sym):
                continue
            try:
                poly = nz.canon(core._to_real(e.t))
            except Exception:
                nund += 1
                continue
            if len(poly) != 1:
                nund += 1
                continue
            (mono, c), = poly.items()
            if len(mono) != 1 or mono[0][1] != 1:
                nund += 1
                continue
            nsym += 1
            c = abs(float(c))
            if not all(abs(c - r) <= REL * r for r in want):
                nbad += 1
                sample = c
        ctx.note(f"{fmt}:{attr}: {nsym} affine elements, {nund} undecided")
        if nsym == 0:
            ctx.record("attribute-is-in-atomic-units", f"{fmt}:{attr}:{unit}", None, detail="no affine element")
        else:
            ctx.oblige("attribute-is-in-atomic-units", nbad == 0, cls=f"{fmt}:{attr}:{unit}",
                       detail=f"factor {sample!r} instead of {want[0]!r} ({nbad}/{nsym} elements)")


def h_molden_units(ctx, unit="(Angs)", twin=False):
    """Molden [Atoms] header: AU / (AU) -> bohr, Angs / (Angs) -> angstrom (Molden format description)."""
    import iodata.api as api
    import iodata.formats.molden as molden
    from iodata.utils import LoadError
    from specs import layouts as L
    mods = rt._fmt_modules("molden")
    x = [[ctx.real(f"x{i}_{k}", lo=-50, hi=50, default=0.3 * (i + 1) * (k + 1)) for k in range(3)] for i in range(2)]
    saved = molden._is_normalized_properly
    molden._is_normalized_properly = lambda *a, **k: True      # the vendor cascade is the subject of C05
    try:
        with stubbed(*mods):
            text = L.write_molden(dict(unit=unit, atoms=[(1, *x[0]), (1, *x[1])]))
            p = ctx.tmp_path("u.molden")
            ctx.write_text(p, text)
            with warnings.catch_warnings(record=True):
                warnings.simplefilter("always")
                try:
                    d = api.load_one(p)
                except LoadError as e:
                    ctx.oblige("molden-file-loads", False, cls=unit, detail=f"{e} / {e.__cause__!r}")
                    return
    finally:
        molden._is_normalized_properly = saved
    f = ref("angstrom")[0] if "ang" in unit.lower() else 1.0
    if twin:
        f = f * 2
    want = np.array([[v * f for v in row] for row in x], dtype=object if ctx.mode == "sym" else float)
    ctx.oblige("molden-coordinates-in-atomic-units", ctx.approx(d.atcoords, want, 1e-7, atol=1e-9), cls=unit)


def h_units_after_dump(ctx, fmt="fchk", natom=2, variant="post"):
    """Writing an object in a format with other units must leave the object's own values in atomic units (the writer converts
    a copy): every attribute after dump_one equals the attribute before, as terms."""
    from harness import rt
    return rt.h_roundtrip(ctx, fmt=fmt, natom=natom, variant=variant, prop="C09")


def jobs(tier):
    M = "harness.c04"
    out = [job("C04", "unit-constants", M, "h_constants", {}, validate=False)]
    for fmt, fn, units, skip in CASES:
        out.append(job("C04", f"corpus[{fmt},{fn}]", M, "h_corpus", dict(fmt=fmt, fn=fn, units=units, skip=skip),
                       budget_s=600, max_validate=0, validate=False))
    if tier == "thorough":
        for fmt, fn, units, skip in CASES_THOROUGH:
            out.append(job("C04", f"corpus[{fmt},{fn}]", M, "h_corpus", dict(fmt=fmt, fn=fn, units=units, skip=skip),
                           budget_s=1800, max_validate=0, validate=False))
    for unit in ("AU", "(AU)", "Angs", "(Angs)", "(ANGS)", "au"):
        out.append(job("C04", f"molden-units[{unit}]", M, "h_molden_units", dict(unit=unit), max_validate=2))
    for fmt, n, var in (("fchk", 2, "post"), ("xyz", 2, "default"), ("pdb", 3, "full"), ("mol2", 3, "full"), ("sdf", 3, "bonds"),
                        ("poscar", 3, "lower"), ("cube", 2, "234"), ("wfx", 2, "full"), ("wfn", 2, "full"), ("molekel", 2, "full"),
                        ("molden", 2, "ecp"), ("json", 3, "full")):
        out.append(job("C04", f"units-after-dump[{fmt}]", M, "h_units_after_dump", dict(fmt=fmt, natom=n, variant=var), max_validate=2,
                       max_paths=200))
    # files in the published layouts (independent writers of C03): every dimensional quantity with its unit factor
    C3 = "harness.c03"
    for name, fn, params in (
            ("gro-triclinic", "h_gro", dict(natom=2, nframes=1, vel=True, triclinic=True, time=True)),
            ("extxyz", "h_xyz", dict(nframes=2, ext=True)), ("xyz", "h_xyz", dict(nframes=1, ext=False)),
            ("poscar-cartesian", "h_vasp", dict(kind="poscar", direct=False, selective=False)),
            ("chgcar-direct", "h_vasp", dict(kind="chgcar", direct=True, selective=False)),
            ("locpot", "h_vasp", dict(kind="locpot", direct=True, selective=False)),
            ("cube", "h_cube", dict(shape=[1, 2, 7])), ("crd", "h_crd", dict(natom=2)), ("sdf", "h_sdf", dict(natom=3, nbond=2)),
            ("pdb", "h_pdb", dict(natom=3, big=False)), ("mol2", "h_mol2", dict(natom=3)),
            ("fchk", "h_fchk", dict(basis="sp", spin="restricted", props=True)), ("mwfn", "h_mwfn", dict(dtype=2, spin="restricted")),
            ("gaussian-input", "h_gaussian_input", dict(natom=2, nlink0=1, nroute=1, ntitle=1)),
            ("molden-angs", "h_molden_layout", dict(fmt="molden", dkind="c", unit="Angs", spin="restricted")),
            ("molekel", "h_molden_layout", dict(fmt="molekel", dkind="c", unit="AU", spin="restricted")),
            ("gamess-punch", "h_gamess", dict(natom=2)), ("wfx", "h_wfx", dict(order="standard-p", nprim=1)),
            ("fchk-trajectory", "h_fchk_trajectory", dict(kind="Opt", npoint=2))):
        out.append(job("C04", f"layout[{name}]", C3, fn, params, budget_s=300, max_validate=2, max_paths=300))
    out.append(job("C04", "molden-units[twin]", M, "h_molden_units", dict(unit="AU", twin=True), expect="cex", max_validate=0))
    out.append(job("C04", "corpus[twin]", M, "h_corpus",
                   dict(fmt="charmm", fn="crambin.crd", units={"atcoords": "angstrom"}, twin=True), expect="cex",
                   validate=False))
    return out
