"""Round-trip harness shared by C02 (save/reload), C15 (further cycles), C09 (arguments untouched).

Builders create IOData objects whose real-valued content is symbolic; the real ``api.dump_one``
writes them (numbers become placeholder tokens), the real ``api.load_one`` reads them back, and
the loaded attributes are compared with the dumped ones as terms.
"""

from __future__ import annotations

import warnings

import numpy as np

from specs.periodic_ref import NUM2SYM
from symx import core
from symx.core import And, Not, Or, Sym
from symx.stubs import stubbed

ANG = 1.8897261246257702


def _fmt_modules(fmt):
    import importlib
    import iodata.api as api
    import iodata.attrutils as A
    import iodata.basis as B
    import iodata.convert as C
    import iodata.iodata as I
    import iodata.orbitals as O
    import iodata.overlap as OV
    import iodata.prepare as P
    import iodata.utils as U
    mods = [api, A, I, U, O, B, C, P, OV]
    names = {"poscar": ["poscar", "chgcar"], "wfx": ["wfx", "wfn"], "molekel": ["molekel", "molden"],
             "json": ["json_qcschema"], "extxyz": ["extxyz", "xyz"], "chgcar": ["chgcar", "poscar"], "locpot": ["locpot", "chgcar", "poscar"]}.get(fmt, [fmt])
    for n in names:
        mods.append(importlib.import_module(f"iodata.formats.{n}"))
    return mods


def _coords(ctx, natom, probes, lo, hi, name="x"):
    sym = ctx.mode == "sym"
    c = np.zeros((natom, 3), dtype=object if sym else float)
    for i in range(natom):
        c[i] = [0.37 * (i % 11) - 1.5, 0.21 * (i % 7) + 0.4, -0.13 * (i % 5)]
    for p in probes:
        for k in range(3):
            c[p, k] = ctx.real(f"{name}{p}_{k}", lo=lo, hi=hi, default=0.5 * (k + 1) - p)
    return c


def _probes(natom):
    return sorted({0, natom - 1}) if natom > 3 else list(range(natom))


ZMENU = [[1, 8], [2, 118], [10, 11], [99, 100], [6, 17]]


def _atnums(ctx, natom, probes):
    z = np.array([6, 1, 8, 7][:1] * natom)
    for i in range(natom):
        z[i] = [6, 1, 8, 7, 16][i % 5]
    if ctx.scratch.get("every_element"):
        # one job per format walks through the whole periodic table (two neighbouring elements per path)
        k = ctx.choice(list(range(1, 119, 2)), label="Z")
        pair = (k, min(k + 1, 118))
    else:
        pair = ctx.choice(ZMENU, label="Z")
    for n, p in enumerate(probes[:2]):
        z[p] = pair[n]
    return z


# ------------------------------------------------------------------------------------------
# builders: return (kwargs for IOData, dump kwargs, load kwargs, expected dict, tolerances)


def build_xyz(ctx, natom=2, variant="default"):
    probes = _probes(natom)
    z = _atnums(ctx, natom, probes)
    c = _coords(ctx, natom, probes, -900 * ANG, 900 * ANG)
    title = ctx.choice([None, "1 1 1 water  molecule 300"], label="title")
    kw = dict(atnums=z, atcoords=c, title=title)
    exp = dict(atnums=z, atcoords=c, title=title or "Created with IOData")
    dkw = {}
    if variant == "columns":
        import iodata.formats.xyz as X
        q = np.zeros(natom, dtype=object if ctx.mode == "sym" else float)
        g = np.zeros((natom, 3), dtype=object if ctx.mode == "sym" else float)
        for p in probes:
            q[p] = ctx.real(f"q{p}", lo=-9, hi=9, default=0.25)
            for k in range(3):
                g[p, k] = ctx.real(f"g{p}_{k}", lo=-90, hi=90, default=0.1 * k)
        # two columns that live in the same dictionary attribute (two charge kinds), one array attribute with a sign change
        q2 = np.zeros(natom, dtype=object if ctx.mode == "sym" else float)
        for p in probes:
            q2[p] = ctx.real(f"h{p}", lo=-9, hi=9, default=-0.125)
        kw["atcharges"] = {"mulliken": q, "hirshfeld": q2}
        kw["atgradient"] = g
        cols = X.DEFAULT_ATOM_COLUMNS + [
            ("atcharges", "mulliken", (), float, (lambda word: _f(X, word)), "{:10.5f}".format),
            ("atgradient", None, (3,), float, (lambda word: -_f(X, word)), (lambda value: "{:15.10f}".format(-value))),
            ("atcharges", "hirshfeld", (), float, (lambda word: _f(X, word)), "{:10.5f}".format),
        ]
        dkw = dict(atom_columns=cols)
        exp["atcharges.mulliken"] = q
        exp["atcharges.hirshfeld"] = q2
        exp["atgradient"] = g
    tol = dict(atcoords=0.51e-10 * ANG, atgradient=0.51e-10, **{"atcharges.mulliken": 0.51e-5, "atcharges.hirshfeld": 0.51e-5})
    return kw, dkw, dict(dkw), exp, tol


def _f(mod, word):
    return getattr(mod, "float", float)(word)


def build_pdb(ctx, natom=2, variant="default"):
    probes = _probes(natom)
    z = _atnums(ctx, natom, probes)
    c = _coords(ctx, natom, probes, -90 * ANG, 900 * ANG)
    title = ctx.choice([None, "2024 01 15 a protein"], label="title")
    kw = dict(atnums=z, atcoords=c, title=title)
    exp = dict(atnums=z, atcoords=c, title=title or "Created with IOData")
    sym = ctx.mode == "sym"
    if variant in ("full", "bonds", "star"):
        occ = np.ones(natom, dtype=object if sym else float)
        bf = np.zeros(natom, dtype=object if sym else float)
        for p in probes:
            occ[p] = ctx.real(f"occ{p}", lo=0, hi=999, default=0.5)
            bf[p] = ctx.real(f"bf{p}", lo=-99, hi=999, default=12.5)
        attypes = np.array([f"C{i % 90}" for i in range(natom)])
        restypes = np.array(["ALA", "GLY", "HOH"][:1] * natom)
        resnums = np.array([(i % 900) + 1 for i in range(natom)])
        chain = np.array(["A"] * natom)
        kw["atffparams"] = dict(attypes=attypes, restypes=restypes, resnums=resnums)
        kw["extra"] = dict(occupancies=occ, bfactors=bf, chainids=chain, compound="1 2 MY COMPOUND")
        exp.update({"atffparams.attypes": attypes, "atffparams.restypes": restypes, "atffparams.resnums": resnums,
                    "extra.occupancies": occ, "extra.bfactors": bf, "extra.chainids": chain,
                    "extra.compound": "1 2 MY COMPOUND"})
    if variant in ("bonds", "star"):
        # bonds are given in no particular order and with either atom first (a legitimate bond list)
        b = [[natom - 1, 0, 1]] if natom > 1 else []
        if natom > 2:
            b += [[0, 1, 2], [natom - 1, natom - 2, 1]]
        if variant == "star":
            # a hub atom bonded to every other atom (more partners than one CONECT record holds)
            b = [[0, j, 1] for j in range(1, natom)]
        bonds = np.array(b, dtype=int).reshape(-1, 3)
        kw["bonds"] = bonds
        # CONECT records store no bond order: every bond comes back as type 8 ('un', unknown/any)
        exp["bonds"] = np.array([[r[0], r[1], 8] for r in bonds], dtype=int).reshape(-1, 3)
    tol = dict(atcoords=0.51e-3 * ANG, **{"extra.occupancies": 0.0051, "extra.bfactors": 0.0051})
    return kw, {}, {}, exp, tol


def build_mol2(ctx, natom=2, variant="default"):
    probes = _probes(natom)
    z = _atnums(ctx, natom, probes)
    c = _coords(ctx, natom, probes, -900 * ANG, 900 * ANG)
    title = ctx.choice([None, "7 ligand 7"], label="title")
    kw = dict(atnums=z, atcoords=c, title=title)
    exp = dict(atnums=z, atcoords=c, title=title or "Created with IOData")
    sym = ctx.mode == "sym"
    if variant in ("full", "bonds"):
        q = np.zeros(natom, dtype=object if sym else float)
        for p in probes:
            q[p] = ctx.real(f"q{p}", lo=-9, hi=9, default=-0.4)
        types = tuple(f"C.{i % 4}" for i in range(natom))
        kw["atcharges"] = {"mol2charges": q}
        kw["atffparams"] = {"attypes": types}
        exp["atcharges.mol2charges"] = q
        exp["atffparams.attypes"] = types
    if variant == "bonds":
        b = []
        if natom > 1:
            bt = ctx.choice([1, 2, 3, 4, 5, 6, 7, 8], label="bondtype")
            b.append([natom - 1, 0, bt])
        if natom > 2:
            b += [[0, 1, 1], [natom - 1, natom - 2, 2]]
        bonds = np.array(b, dtype=int).reshape(-1, 3)
        kw["bonds"] = bonds
        exp["bonds"] = bonds
    tol = dict(atcoords=0.51e-4 * ANG, **{"atcharges.mol2charges": 0.51e-4})
    return kw, {}, {}, exp, tol


def build_sdf(ctx, natom=2, variant="default"):
    probes = _probes(natom)
    z = _atnums(ctx, natom, probes)
    c = _coords(ctx, natom, probes, -9000 * ANG, 9000 * ANG)
    title = ctx.choice([None, "12 mol 1"], label="title")
    kw = dict(atnums=z, atcoords=c, title=title)
    exp = dict(atnums=z, atcoords=c, title=title or "Created with IOData")
    if variant == "bonds":
        b = []
        if natom > 1:
            bt = ctx.choice([1, 2, 3, 4], label="bondtype")
            b.append([natom - 1, 0, bt])
        if natom > 2:
            b += [[0, 1, 1], [natom - 1, natom - 2, 2]]
        bonds = np.array(b, dtype=int).reshape(-1, 3)
        kw["bonds"] = bonds
        exp["bonds"] = bonds
    else:
        exp["bonds"] = np.zeros((0, 3), dtype=int)
    tol = dict(atcoords=0.51e-4 * ANG)
    return kw, {}, {}, exp, tol


def build_poscar(ctx, natom=2, variant="lower"):
    sym = ctx.mode == "sym"
    probes = _probes(natom)
    z = _atnums(ctx, natom, probes)
    cell = np.zeros((3, 3), dtype=object if sym else float)
    if variant == "lower":
        for i in range(3):
            for j in range(i + 1):
                if i == j:
                    d = ctx.real(f"cell{i}{j}", lo=1.0, hi=40.0, default=5.0 + i)
                    ctx.declare_reciprocal(d, f"inv_cell{i}") if sym else None
                    cell[i, j] = d
                else:
                    cell[i, j] = ctx.real(f"cell{i}{j}", lo=-20, hi=20, default=0.5)
    else:
        for i in range(3):
            for j in range(3):
                cell[i, j] = ctx.real(f"cell{i}{j}", lo=-40, hi=40, default=(6.0 if i == j else 0.3 * (i - j)))
    c = _coords(ctx, natom, probes, -30, 30)
    title = ctx.choice([None, "2 cubic BN"], label="title")
    kw = dict(atnums=z, atcoords=c, cellvecs=cell, title=title)
    # documented re-ordering: atoms grouped by element, elements in descending atomic number
    order = []
    for u in sorted(set(int(v) for v in z))[::-1]:
        order.extend(i for i in range(natom) if z[i] == u)
    exp = dict(atnums=z[order], atcoords=c[order], cellvecs=cell, title=title or "Created with IOData")
    tol = dict(atcoords=1e-9, cellvecs=1e-12)
    return kw, {}, {}, exp, tol


def build_cube(ctx, natom=2, variant="234"):
    from iodata.utils import Cube
    sym = ctx.mode == "sym"
    shape = {"111": (1, 1, 1), "234": (2, 3, 4), "117": (1, 1, 7), "216": (2, 1, 6), "234F": (2, 3, 4), "234T": (2, 3, 4)}[variant]
    probes = _probes(natom)
    z = _atnums(ctx, natom, probes)
    c = _coords(ctx, natom, probes, -900, 900)
    origin = ctx.real_array("org", (3,), lo=-900, hi=900)
    axes = ctx.real_array("ax", (3, 3), lo=-900, hi=900)
    data = ctx.real_array("rho", shape)
    if variant == "234F":
        data = np.asfortranarray(data)                  # same values, column-major memory layout
    if variant == "234T":
        data = ctx.real_array("rhoT", shape[::-1]).transpose(2, 1, 0)      # a transposed view of another array
    title = ctx.choice([None, "3 density of 2 electrons"], label="title")
    kw = dict(atnums=z, atcoords=c, cube=Cube(origin=origin, axes=axes, data=data), title=title)
    exp = dict(atnums=z, atcoords=c, title=title or "Created with IOData")
    exp["cube.origin"] = origin
    exp["cube.axes"] = axes
    exp["cube.data"] = data
    shp = np.array(shape).reshape(-1, 1)
    exp["cellvecs"] = axes * shp
    core_variant = ctx.choice(["default", "ecp"], label="atcorenums")
    if core_variant == "ecp":
        q = np.array([float(v) for v in z], dtype=object if sym else float)
        q[probes[0]] = ctx.real("qcore", lo=0.5, hi=90, default=4.0)
        kw["atcorenums"] = q
        exp["atcorenums"] = q
    else:
        exp["atcorenums"] = np.array([float(v) for v in z])
    tol = dict(atcoords=0.51e-6, atcorenums=0.51e-6, cellvecs=4e-6, **{"cube.origin": 0.51e-6, "cube.axes": 0.51e-6,
                                                                       "cube.data": ("rel", 0.51e-5)})
    return kw, {}, {}, exp, tol


def build_fcidump(ctx, natom=2, variant="sym"):
    sym = ctx.mode == "sym"
    n = natom
    one = np.zeros((n, n), dtype=object if sym else float)
    for i in range(n):
        for j in range(i + 1):
            v = ctx.real(f"h{i}{j}", nonzero=True, default=0.3 + i - 0.1 * j)
            one[i, j] = one[j, i] = v
    two = np.zeros((n, n, n, n), dtype=object if sym else float)
    # 8-fold symmetric two-electron integrals (physicists' notation): fill by orbit representatives
    seen = {}
    for i0 in range(n):
        for i1 in range(n):
            for i2 in range(n):
                for i3 in range(n):
                    orbit = sorted({(i0, i1, i2, i3), (i1, i0, i3, i2), (i2, i1, i0, i3), (i0, i3, i2, i1),
                                    (i2, i3, i0, i1), (i3, i2, i1, i0), (i1, i2, i3, i0), (i3, i0, i1, i2)})
                    rep = orbit[0]
                    if rep not in seen:
                        seen[rep] = ctx.real("v" + "".join(map(str, rep)), nonzero=True,
                                             default=0.1 * (1 + sum(rep)) + 0.01 * rep[0])
                    two[i0, i1, i2, i3] = seen[rep]
    ce = ctx.choice(["none", "set"], label="core_energy")
    kw = dict(one_ints={"core_mo": one}, two_ints={"two_mo": two})
    exp = {"one_ints.core_mo": one, "two_ints.two_mo": two}
    if ce == "set":
        e = ctx.real("ecore", default=1.25)
        kw["core_energy"] = e
        exp["core_energy"] = e
    else:
        exp["core_energy"] = 0.0
    ne = ctx.choice([None, 2, 2.0], label="nelec")
    if ne is not None:
        kw["nelec"] = ne
        kw["spinpol"] = 0 if isinstance(ne, int) else 0.0
        exp["nelec"] = 2
        exp["spinpol"] = 0
    tol = {"one_ints.core_mo": ("rel", 1e-15), "two_ints.two_mo": ("rel", 1e-15), "core_energy": ("rel", 1e-15)}
    return kw, {}, {}, exp, tol


def _symm(ctx, name, n):
    sym = ctx.mode == "sym"
    m = np.zeros((n, n), dtype=object if sym else float)
    for i in range(n):
        for j in range(i + 1):
            m[i, j] = m[j, i] = ctx.real(f"{name}{i}_{j}", lo=-50, hi=50, default=0.1 * (i + 1) - 0.03 * j)
    return m


def density_form(ctx, obasis, dm):
    """The bilinear form sum_mu,nu D[mu,nu] chi_mu chi_nu over canonical primitive keys (one-primitive shells)."""
    from specs import basisfun as BF
    funcs = BF.basis_functions(BF.shells_of(obasis), obasis.conventions)
    out = {}
    for mu, fm in enumerate(funcs):
        for nu, fn_ in enumerate(funcs):
            for k1, c1 in fm.items():
                for k2, c2 in fn_.items():
                    BF.add_to(out, (k1, k2), dm[mu, nu] * c1 * c2)
    return out


def same_density(ctx, ob1, dm1, ob2, dm2):
    a, b = density_form(ctx, ob1, dm1), density_form(ctx, ob2, dm2)
    parts = []
    for k in set(a) | set(b):
        r = ctx.approx(a.get(k, 0.0), b.get(k, 0.0), 1e-7, atol=1e-10)
        if r is False:
            return False
        if r is not True:
            parts.append(r)
    return And(*parts) if parts else True


def build_fchk(ctx, natom=2, variant="wf-own"):
    """FCHK: geometry + properties + wavefunction.

    wf-<conv>: basis, orbitals and density matrices in the given conventions; uhf / rohf: open shells; post: post-SCF
    density matrices; corenums: symbolic core charges; bare: no optional attribute; geom: no wavefunction.
    """
    from harness import wfobj
    conv = variant.split("-", 1)[1] if variant.startswith("wf-") else "fchk"
    shells = [(0, [2], ["c"], 1), (1, [0], ["c"], 1)] if natom >= 2 else [(0, [2], ["c"], 1)]
    if variant in ("uhf", "rohf", "post", "corenums", "bare", "lotblank"):
        shells = [(0, [1], ["c"], 1), (1, [0], ["c"], 1)][:max(1, natom)]
    atoms = [(8, None), (1, None), (6, None)][:natom]
    mo_kind, occ = "restricted", "closed"
    if variant == "uhf":
        mo_kind, occ = "unrestricted", "uhf-odd"
    if variant == "rohf":
        occ = "rohf"
    kw = wfobj.make_wf(ctx, atoms, shells, conv="fchk" if conv == "own" else conv, mo_kind=mo_kind, norb=2, occ=occ,
                       contraction_sym=False)
    nb = wfobj.nbasis_of(shells)
    n3 = 3 * natom
    exp = {}
    if variant == "corenums":
        kw["atcorenums"] = ctx.real_array("zcore", (natom,), lo=0.0, hi=20.0)
        exp["atcorenums"] = kw["atcorenums"]
    if variant == "geom":
        del kw["obasis"], kw["mo"]
        kw["nelec"] = 10.0
    if variant == "nomo":
        del kw["mo"]
        kw["nelec"] = 10.0
    if variant != "bare":
        kw["atmasses"] = ctx.real_array("mass", (natom,), lo=1.0, hi=300.0) * 1822.888486209
        kw["atgradient"] = ctx.real_array("grad", (natom, 3), lo=-9, hi=9)
        kw["athessian"] = _symm(ctx, "hess", n3)
        kw["energy"] = ctx.real("etot", lo=-1e4, hi=0, default=-76.0)
        kw["moments"] = {(1, "c"): ctx.real_array("dip", (3,), lo=-9, hi=9), (2, "c"): ctx.real_array("quad", (6,), lo=-9, hi=9)}
        kw["extra"] = {"polarizability_tensor": _symm(ctx, "pol", 3)}
        kw["atcharges"] = {k: ctx.real_array(f"q{k}", (natom,), lo=-9, hi=9)
                           for k in ("mulliken", "esp", "npa", "mbs", "hirshfeld", "cm5")}
        kw["title"] = "16 fchk title 2"
        kw["lot"] = "mp2" if variant == "post" else ("restricted hf" if variant == "lotblank" else "hf")
        kw["obasis_name"] = "sto-3g"
        kw["run_type"] = ctx.choice(["energy", "freq", "opt", "scan"], label="run_type")
        if variant not in ("geom", "nomo"):
            kw["one_rdms"] = {"scf": _symm(ctx, "dm", nb), "scf_spin": _symm(ctx, "sdm", nb)}
            if variant == "post":
                kw["one_rdms"]["post_scf_ao"] = _symm(ctx, "pdm", nb)
                kw["one_rdms"]["post_scf_spin_ao"] = _symm(ctx, "psdm", nb)
        for k in ("atmasses", "atgradient", "athessian", "energy", "title", "lot", "obasis_name", "run_type"):
            exp[k] = kw[k]
        exp["moments.(1, 'c')"] = kw["moments"][(1, "c")]
        exp["moments.(2, 'c')"] = kw["moments"][(2, "c")]
        exp["extra.polarizability_tensor"] = kw["extra"]["polarizability_tensor"]
        for k, v in kw["atcharges"].items():
            exp[f"atcharges.{k}"] = v
    exp["atnums"] = kw["atnums"]
    exp["atcoords"] = kw["atcoords"]
    if variant not in ("geom", "nomo"):
        exp["@wavefunction"] = True
    tol = dict(atcoords=1e-7, atmasses=("rel", 1e-7), atgradient=("rel", 1e-7), athessian=("rel", 1e-7), energy=("rel", 1e-8),
               atcorenums=1e-7)
    return kw, {}, {}, exp, tol


def build_wfmt(fmt):
    """WFN / WFX / Molden / Molekel: the attributes these formats store next to the wavefunction."""
    def build(ctx, natom=2, variant="full"):
        from harness import wfobj
        heavy = fmt in ("molden", "molekel")
        conv = {"molden": "molden", "molekel": "molden", "wfn": "wfn", "wfx": "wfn"}[fmt]
        shells = [(0, [0], ["c"], 2), (1, [1], ["c"], 1)][:max(1, natom)]
        if variant == "unsorted":
            # shells stored in no particular centre order (a legitimate basis, e.g. grouped by angular momentum)
            shells = [(1, [0], ["c"], 1), (0, [1], ["c"], 1), (1, [1], ["c"], 1)]
        if variant in ("dpfc", "dcfp"):
            # pure d with Cartesian f functions and the reverse (Gaussian's 5D 10F / 6D 7F): the header tags must say so
            kd, kf = ("p", "c") if variant == "dpfc" else ("c", "p")
            shells = [(0, [2], [kd], 1), (1, [3], [kf], 1), (1, [0], ["c"], 1)]
        if variant == "hcart":
            # Cartesian h functions: 21 components whose order the reader and the writer of a format must agree on
            shells = [(0, [5], ["c"], 1), (1, [0], ["c"], 1)]
        atoms = [(8, None), (1, None)][:natom]
        uhf = variant == "uhf"
        kw = wfobj.make_wf(ctx, atoms, shells, conv=conv, mo_kind="unrestricted" if uhf else "restricted", norb=2,
                           occ="uhf-odd" if uhf else "closed", coords_sym=not heavy, contraction_sym=False, sym=not heavy)
        exp = {"atnums": kw["atnums"], "atcoords": kw["atcoords"], "@wavefunction": True}
        tol = dict(atcoords=2e-6 if fmt == "molekel" else 1e-7)
        full = variant in ("full", "uhf", "ecp", "unsorted", "dpfc", "dcfp", "hcart")
        if fmt in ("wfn", "wfx", "molden") and full:
            kw["title"] = f"3 21 {fmt} title"
            exp["title"] = kw["title"]
        if fmt in ("wfn", "wfx"):
            kw["extra"] = {}
            if full:
                kw["energy"] = ctx.real("etot", lo=-1e4, hi=-1e-3, default=-76.0)
                kw["extra"]["virial_ratio"] = ctx.real("virial", lo=1.0, hi=3.0, default=2.003)
                exp["extra.virial_ratio"] = kw["extra"]["virial_ratio"]
            exp["energy"] = kw.get("energy") if full else "@absent-or-nan"
            tol.update({"energy": ("rel", 1e-7), "extra.virial_ratio": ("rel", 1e-7)})
        if fmt == "wfx" and full:
            kw["atgradient"] = ctx.real_array("grad", (natom, 3), lo=-9, hi=9)
            kw["lot"] = "B3LYP"
            kw["extra"].update(keywords="GTO", num_perturbations=0, num_core_electrons=2,
                               nuc_viral=ctx.real("nucvir", lo=-9, hi=9, default=0.25),
                               full_virial_ratio=ctx.real("fullvir", lo=1.0, hi=3.0, default=2.01))
            exp["atgradient"] = kw["atgradient"]
            exp["lot"] = kw["lot"]
            for k in ("keywords", "num_perturbations", "num_core_electrons", "nuc_viral", "full_virial_ratio"):
                exp[f"extra.{k}"] = kw["extra"][k]
        if fmt in ("wfx", "molden"):
            exp["atcorenums"] = kw["atnums"].astype(float)
            if variant == "ecp":
                # effective core charges; Molden prints them without decimals
                kw["atcorenums"] = ctx.real_array("zcore", (natom,), lo=0.0, hi=20.0) if fmt == "wfx" else np.array([6.0, 1.0][:natom])
                exp["atcorenums"] = kw["atcorenums"]
                tol["atcorenums"] = 1e-7
        if fmt == "molekel":
            if full:
                kw["atcharges"] = {"mulliken": ctx.real_array("q", (natom,), lo=-9, hi=9)}
                exp["atcharges.mulliken"] = kw["atcharges"]["mulliken"]
                tol["atcharges.mulliken"] = 1e-6
            else:
                exp["@atcharges-empty"] = True
        return kw, {}, {}, exp, tol
    return build


def build_json(ctx, natom=2, variant="full"):
    """QCSchema molecule: geometry, charge, multiplicity, masses, connectivity, ghost atoms, passthrough keys."""
    atnums = np.array([8, 1, 6, 17][:natom])
    coords = ctx.real_array("x", (natom, 3), lo=-50, hi=50)
    kw = dict(atnums=atnums, atcoords=coords, extra={"schema_name": "qcschema_molecule", "molecule": {}})
    exp = {"atnums": atnums, "atcoords": coords}
    # charge and spinpol are documented as required
    kw["charge"] = ctx.real("charge", lo=-5, hi=5, default=1.0)
    kw["spinpol"] = 2
    exp["charge"], exp["spinpol"] = kw["charge"], kw["spinpol"]
    if variant == "full":
        kw["title"] = "1 qcschema molecule"
        kw["atmasses"] = ctx.real_array("mass", (natom,), lo=1.0, hi=5e5)
        if natom >= 2:
            kw["bonds"] = np.array([[0, 1, 2]] + ([[1, 2, 1]] if natom >= 3 else []))
            kw["atcorenums"] = np.array([float(z) for z in atnums])
            kw["atcorenums"][1] = 0.0              # a ghost atom
            exp["bonds"] = kw["bonds"]
            exp["atcorenums"] = kw["atcorenums"]
        kw["extra"]["molecule"] = {"comment": "generated", "fix_com": True, "fix_orientation": False, "atom_labels": ["a", "b", "c", "d"][:natom],
                                   "fragments": {"indices": [np.array([0]), np.array(list(range(1, natom)))][:2 if natom > 1 else 1],
                                                 "charges": np.array([1.0, 0.0][:2 if natom > 1 else 1]),
                                                 "multiplicities": np.array([3, 1][:2 if natom > 1 else 1])}}
        for k in ("title", "atmasses"):
            exp[k] = kw[k]
        for k in ("comment", "fix_com", "fix_orientation"):
            exp[f"extra.molecule.{k}"] = kw["extra"]["molecule"][k]
        exp["extra.molecule.fragments.charges"] = kw["extra"]["molecule"]["fragments"]["charges"]
        exp["extra.molecule.fragments.multiplicities"] = kw["extra"]["molecule"]["fragments"]["multiplicities"]
    return kw, {"fmt": "json_qcschema"}, {"fmt": "json_qcschema"}, exp, {}


BUILDERS = dict(json=build_json, wfn=build_wfmt("wfn"), wfx=build_wfmt("wfx"), molden=build_wfmt("molden"), molekel=build_wfmt("molekel"), fchk=build_fchk, xyz=build_xyz, pdb=build_pdb, mol2=build_mol2, sdf=build_sdf, poscar=build_poscar, cube=build_cube,
                fcidump=build_fcidump)
FILENAMES = dict(json="mol.json", wfn="mol.wfn", wfx="mol.wfx", molden="mol.molden", molekel="mol.mkl", fchk="mol.fchk", xyz="mol.xyz", pdb="mol.pdb", mol2="mol.mol2", sdf="mol.sdf", poscar="POSCAR", cube="mol.cube",
                 fcidump="FCIDUMP")


# ------------------------------------------------------------------------------------------


def get_attr(data, path):
    if path.startswith("moments."):
        return data.moments.get(eval(path.split(".", 1)[1]))
    obj = data
    for part in path.split("."):
        if obj is None:
            return None
        if isinstance(obj, dict):
            obj = obj.get(part)
        else:
            obj = getattr(obj, part)
    return obj


def compare_bonds(got, want):
    """Same set of bonds (each bond once, atoms of a bond in either order), same types."""
    def norm(b):
        if b is None:
            return []
        return sorted((min(int(r[0]), int(r[1])), max(int(r[0]), int(r[1])), int(r[2])) for r in np.asarray(b).reshape(-1, 3))
    return norm(got) == norm(want)


def compare_value(ctx, got, want, tol):
    """Formula / bool: loaded value equals the dumped one (terms; tolerance in concrete replay)."""
    if want is None:
        return got is None
    if got is None:
        return False
    if isinstance(want, str):
        return isinstance(got, str) and got == want
    if isinstance(want, (tuple, list)) and want and isinstance(want[0], str):
        return list(got) == list(want)
    w = np.asarray(want, dtype=object) if not isinstance(want, np.ndarray) else want
    g = np.asarray(got, dtype=object) if not isinstance(got, np.ndarray) else got
    if w.dtype.kind in "US":
        return g.shape == w.shape and [str(x) for x in g.ravel()] == [str(x) for x in w.ravel()]
    if g.shape != w.shape:
        return False
    if w.dtype.kind in "iub" and g.dtype.kind in "iub":
        return bool(np.array_equal(g, w))
    def tol_ok(x, y):
        x, y = float(x), float(y)
        if isinstance(tol, tuple):
            return abs(x - y) <= tol[1] * abs(y) + 1e-300
        return abs(x - y) <= (tol if tol is not None else 1e-12) + 1e-9 * abs(y)
    if ctx.mode == "conc":
        return all(tol_ok(x, y) for x, y in zip(g.ravel().tolist(), w.ravel().tolist()))
    parts = []
    for x, y in zip(g.ravel().tolist(), w.ravel().tolist()):
        if not isinstance(x, Sym) and not isinstance(y, Sym):
            # concrete filler went through real digits: printed precision applies
            if not tol_ok(x, y):
                return False
            continue
        r = ctx.eq(x, y)
        if r is False:
            return False
        if r is not True:
            parts.append(r)
    return And(*parts) if parts else True


def snapshot(ctx, data):
    """Deep snapshot of every public attribute (array contents as terms, identities of members)."""
    import attrs
    snap = {}
    for a in attrs.fields(type(data)):
        name = a.name.lstrip("_")
        v = getattr(data, "_" + name if a.name.startswith("_") else name)
        snap[name] = _snap(v)
    return ("obj", id(data), snap)


def _snap(v):
    if isinstance(v, np.ndarray):
        return ("array", id(v), v.dtype.kind, v.shape, v.copy())
    if isinstance(v, dict):
        return ("dict", id(v), {k: _snap(x) for k, x in v.items()})
    if isinstance(v, (list, tuple)):
        return ("seq", id(v), type(v).__name__, [_snap(x) for x in v])
    if hasattr(v, "__attrs_attrs__"):
        import attrs
        return ("obj", id(v), {a.name: _snap(getattr(v, a.name)) for a in attrs.fields(type(v))})
    return ("val", v)


def snap_equal(ctx, a, b, path=""):
    """List of (path, formula/bool) differences to be obliged."""
    out = []
    if a[0] != b[0]:
        return [(path, False)]
    kind = a[0]
    if kind == "array":
        if a[1] != b[1] or a[2] != b[2] or a[3] != b[3]:
            return [(path + ":identity/shape", False)]
        if a[2] == "O" or a[2] == "f":
            out.append((path, ctx.eq(a[4], b[4], rtol=0, atol=0)))
        else:
            out.append((path, bool(np.array_equal(a[4], b[4]))))
    elif kind == "dict":
        if a[1] != b[1] or set(a[2]) != set(b[2]):
            return [(path + ":keys", False)]
        for k in a[2]:
            out.extend(snap_equal(ctx, a[2][k], b[2][k], f"{path}.{k}"))
    elif kind == "seq":
        if a[1] != b[1] or len(a[3]) != len(b[3]):
            return [(path + ":len", False)]
        for i, (x, y) in enumerate(zip(a[3], b[3])):
            out.extend(snap_equal(ctx, x, y, f"{path}[{i}]"))
    elif kind == "obj":
        if a[1] != b[1]:
            return [(path + ":identity", False)]
        for k in a[2]:
            out.extend(snap_equal(ctx, a[2][k], b[2][k], f"{path}.{k}"))
    else:
        x, y = a[1], b[1]
        if isinstance(x, Sym) or isinstance(y, Sym):
            out.append((path, ctx.eq(x, y)))
        else:
            out.append((path, (x is y) or x == y))
    return out


def _compare_wavefunction(ctx, data, back, cls, fmt=None):
    """Orbitals as functions of space and every density matrix as a bilinear form (conventions may differ)."""
    from harness import c01
    ctx.oblige("reload:orbitals-present", back.mo is not None and back.obasis is not None, cls=cls)
    if back.mo is None or back.obasis is None:
        return
    src, dst = c01.semantic(ctx, data), c01.semantic(ctx, back)
    if fmt == "wfn" and data.mo.kind == "unrestricted":
        # documented heuristic: a WFN file without the Multiwfn spin section cannot say which orbitals are alpha and
        # which beta when no occupation exceeds 1: the orbital list is compared without spin labels (as in C01)
        def flat(sem, mo):
            return {"a": sem["a"] + sem["b"] if mo.kind == "unrestricted" else sem["a"], "b": []}
        src, dst = flat(src, data.mo), flat(dst, back.mo)
    for label, f, where in c01.same_orbitals(ctx, src, dst):
        ctx.oblige("reload:" + label, f, cls=cls, detail=where)
    for key, dm in data.one_rdms.items():
        got = back.one_rdms.get(key)
        if got is None:
            ctx.oblige(f"reload:one_rdms.{key}", False, cls=cls, detail="missing after reload")
            continue
        ctx.oblige(f"reload:density-matrix-{key}-is-the-same-density", same_density(ctx, data.obasis, dm, back.obasis, got), cls=cls)


def h_roundtrip(ctx, fmt="xyz", natom=2, variant="default", prop="C02", policy="fit", twin=False):
    if fmt not in ("molden", "molekel"):
        return _h_roundtrip(ctx, fmt, natom, variant, prop, policy, twin)
    import iodata.formats.molden as _molden
    gate = _molden._is_normalized_properly
    _molden._is_normalized_properly = lambda *a, **k: True
    try:
        return _h_roundtrip(ctx, fmt, natom, variant, prop, policy, twin)
    finally:
        _molden._is_normalized_properly = gate


def _h_roundtrip(ctx, fmt, natom, variant, prop, policy, twin):
    if variant.endswith("+elements"):
        variant = variant[:-len("+elements")]
        ctx.scratch["every_element"] = True
    import iodata.api as api
    from iodata.iodata import IOData
    from iodata.utils import DumpError, LoadError, PrepareDumpError
    mods = _fmt_modules(fmt)
    ctx.scratch["width_policy"] = policy
    ctx.scratch["full_budget"] = 1
    with stubbed(*mods):
        kw, dkw, lkw, exp, tol = BUILDERS[fmt](ctx, natom, variant)
        data = IOData(**kw)
        cls = f"{fmt},{variant},n={natom}"
        path = ctx.tmp_path(FILENAMES[fmt])
        before = snapshot(ctx, data) if prop == "C09" else None
        if prop == "C09":
            # reading the default core charges is explicitly not a change: trigger it before the snapshot
            data.atcorenums
            before = snapshot(ctx, data)
        with warnings.catch_warnings(record=True) as wl:
            warnings.simplefilter("always")
            try:
                ret = api.dump_one(data, path, **dkw)
                err = None
            except (PrepareDumpError, DumpError) as e:
                ret, err = None, e
        if prop == "C09":
            after = snapshot(ctx, data)
            for where, f in snap_equal(ctx, before, after, "data"):
                ctx.oblige("dump-leaves-argument-unchanged", f, cls=f"{cls}:{where.split('.')[1] if '.' in where else where}")
            if err is None:
                ctx.oblige("dump-returns-the-very-object", ret is data, cls=cls)
            return
        if prop == "C02":
            ctx.oblige("documented-object-is-written-not-refused", err is None, cls=cls,
                       detail=f"{type(err).__name__}: {err} / {getattr(err, '__cause__', None)!r}")
        if err is not None:
            return
        text1 = ctx.read_text(path)
        # Molden/Molekel: the vendor-detection cascade is the subject of C05; the norm gate is opened (in both modes) so
        # that arbitrary - not necessarily orthonormal - coefficients can be read back
        with warnings.catch_warnings(record=True):
            warnings.simplefilter("always")
            try:
                back = api.load_one(path, **lkw)
                lerr = None
            except LoadError as e:
                back, lerr = None, e
        if prop == "C02":
            ctx.oblige("reload-succeeds", lerr is None, cls=cls, detail=f"{lerr} / {getattr(lerr, '__cause__', None)!r}")
        if lerr is not None:
            return          # C15 speaks about objects that have been saved and reloaded once
        if prop == "C02":
            for attr, want in exp.items():
                if attr == "@wavefunction":
                    _compare_wavefunction(ctx, data, back, cls, fmt)
                    continue
                if isinstance(want, str) and want == "@absent-or-nan":
                    # WFN/WFX have a mandatory energy field: the writer documents NaN as "not available"
                    got = get_attr(back, attr)
                    ctx.oblige(f"reload:{attr}", got is None or (not isinstance(got, Sym) and got != got), cls=cls, detail=repr(got))
                    continue
                if attr == "@atcharges-empty":
                    ctx.oblige("reload:absent-atcharges-stay-an-empty-dictionary", back.atcharges == {}, cls=cls,
                               detail=repr(back.atcharges))
                    continue
                if twin and attr == "atcoords":
                    want = want * 1.0000001
                if attr == "bonds":
                    ctx.oblige("reload:bonds", compare_bonds(get_attr(back, attr), want), cls=cls)
                    continue
                ctx.oblige(f"reload:{attr}", compare_value(ctx, get_attr(back, attr), want, tol.get(attr)), cls=cls)
            return
        # C15: second and third generation
        def gen(k):
            fn = FILENAMES[fmt]
            return ctx.tmp_path(f"gen{k}." + fn if "." in fn else fn + f".gen{k}")
        path2, path3 = gen(2), gen(3)
        with warnings.catch_warnings(record=True):
            warnings.simplefilter("always")
            try:
                api.dump_one(back, path2, **dkw)
                back2 = api.load_one(path2, **lkw)
                api.dump_one(back2, path3, **dkw)
                back3 = api.load_one(path3, **lkw)
                cerr = None
            except (PrepareDumpError, DumpError, LoadError) as e:
                cerr = e
        ctx.oblige("further-cycles-succeed", cerr is None, cls=cls, detail=str(cerr))
        if cerr is not None:
            return
        # reading the default core charges is not a change of the object (the getter caches them, C11)
        back2.atcorenums, back3.atcorenums
        s2, s3 = snapshot(ctx, back2), snapshot(ctx, back3)
        t2, t3 = ctx.read_text(path2), ctx.read_text(path3)
        if fmt == "json":
            # the documented exception: the provenance trail grows by design
            import json as _json
            from harness import c15
            from symx import symjson
            s2, s3 = c15._strip_snap(s2), c15._strip_snap(s3)
            d2, d3 = (c15._drop_provenance(symjson.loads(t) if ctx.mode == "sym" else _json.loads(t)) for t in (t2, t3))
            for where, f in _value_equal(ctx, _snap(d2), _snap(d3), "file"):
                ctx.oblige("cycle3-file-equals-cycle2-file", f, cls=f"{cls}:{where[:60]}")
        else:
            ctx.oblige("cycle3-file-equals-cycle2-file", _text_equal(ctx, t2, t3), cls=cls)
        for where, f in _value_equal(ctx, s2, s3, "obj"):
            ctx.oblige("cycle3-object-equals-cycle2-object", f, cls=f"{cls}:{where}")


def _value_equal(ctx, a, b, path):
    """Like snap_equal but ignoring object identities (two different loads)."""
    out = []
    if a[0] != b[0]:
        return [(path, False)]
    kind = a[0]
    if kind == "array":
        if a[2] != b[2] or a[3] != b[3]:
            return [(path + ":dtype/shape", False)]
        if a[2] in "Of":
            out.append((path, ctx.eq(a[4], b[4], rtol=0, atol=0)))
        else:
            out.append((path, bool(np.array_equal(a[4], b[4]))))
    elif kind == "dict":
        if set(a[2]) != set(b[2]):
            return [(path + ":keys", False)]
        for k in a[2]:
            out.extend(_value_equal(ctx, a[2][k], b[2][k], f"{path}.{k}"))
    elif kind == "seq":
        if len(a[3]) != len(b[3]) or a[2] != b[2]:
            return [(path + ":len", False)]
        for i, (x, y) in enumerate(zip(a[3], b[3])):
            out.extend(_value_equal(ctx, x, y, f"{path}[{i}]"))
    elif kind == "obj":
        for k in a[2]:
            out.extend(_value_equal(ctx, a[2][k], b[2][k], f"{path}.{k}"))
    else:
        x, y = a[1], b[1]
        if isinstance(x, Sym) or isinstance(y, Sym):
            out.append((path, ctx.eq(x, y)))
        elif isinstance(x, str) and isinstance(y, str) and ctx.mode == "sym" and x != y:
            # strings that carry placeholder tokens of formatted numbers: token-for-token comparison
            out.append((path, _text_equal(ctx, x, y)))
        else:
            both_nan = isinstance(x, float) and isinstance(y, float) and x != x and y != y      # bit-identical NaN
            out.append((path, both_nan or x == y))
    return out


def _text_equal(ctx, t2, t3):
    """Token-for-token equality of two texts (same literal text, tokens with equal terms and widths)."""
    if ctx.mode == "conc":
        return t2 == t3
    from symx import tokens as T
    if len(t2) != len(t3):
        return False
    reg = ctx.scratch.get("tokens", [])
    parts = []
    for a, b in zip(t2, t3):
        if a == b:
            continue
        ia, ib = T._head_id(a) if T.is_pua(a) and a != T.FILL else None, T._head_id(b) if T.is_pua(b) and b != T.FILL else None
        if ia is None or ib is None or ia >= len(reg) or ib >= len(reg):
            return False
        ta, tb = reg[ia], reg[ib]
        if len(ta.text) != len(tb.text) or ta.kind != tb.kind or ta.note != tb.note:
            return False
        parts.append(ctx.eq(ta.sym, tb.sym))
    return And(*parts) if parts else True
