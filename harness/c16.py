"""C16 - results depend only on the arguments, not on call history (sequential part)."""

from __future__ import annotations

import importlib
import sys
import types
import warnings

import numpy as np

from symx import core
from symx.runner import job

META = dict(
    bounds=dict(
        quick="inductive step: from a state in which every module-level mutable object reachable from iodata.* (periodic "
              "tables, bond tables, all CONVENTIONS, HORTON2/CCA, FORMAT_MODULES, INPUT_MODULES, STRTOBOOL, unit constants, "
              "numpy error state, warning filters) equals its import-time snapshot, any API call of the pool - the "
              "symbolic harnesses of C01 (5 wavefunction formats), C02 (7 formats), C03 (12 readers), C08 (failing "
              "dumps), C13 (dump_many/load_many), C19 (write_input), on every explored path - leaves that state unchanged; "
              "histories A;B;A for pairs of the pool: the two runs of A write token-identical files; histories A;B;A "
              "of loading calls for 10 formats: A = a fixture cut at any of its first 40 line boundaries (mostly failing "
              "calls), B = the complete fixture of the same / of another format: same outcome kind, same message, same objects; a "
              "lazily consumed load_many (mol2, xyz, sdf, pdb, gro; 3 frames) with complete loads of another file between its frames; "
              "A;B;A with files in published layouts where A leaves something to the reader's fall-back rules (PDB without "
              "element columns around a PDB with them, and five more pairs); one object (SP shell + another generalized "
              "contraction) dumped to FCHK and then to each other wavefunction format and the reverse: outcome and file of the "
              "second dump equal those of a fresh equal object",
        thorough="all ordered pairs of the pool for A;B;A; all 20 ordered pairs of wavefunction writers for the same-object history"),
    outside=["thread interleavings (2..16 threads): no engine here models CPython thread scheduling; "
             "warnings.catch_warnings used by the API is documented as not thread-safe",
             "state outside the enumerated module globals that does not influence the written files of A;B;A"],
    assumptions=["the invariant pins the global state, so any sequential history is a sequence of steps from the same state "
                 "(induction); stubs are installed/removed around each call and are not part of the compared state"],
    explanation="global-state invariant checked around every symbolic API harness; A;B;A histories on one path",
)


def _snap_value(v, depth=0):
    if isinstance(v, (str, int, float, bool, type(None), complex)):
        return ("v", v)
    if isinstance(v, np.ndarray):
        return ("a", v.dtype.str, v.shape, v.tobytes() if v.dtype != object else repr(v.tolist()))
    if isinstance(v, dict):
        if depth > 4:
            return ("d", len(v))
        return ("d", tuple(sorted(((repr(k), _snap_value(x, depth + 1)) for k, x in v.items()), key=lambda t: t[0])))
    if isinstance(v, (list, tuple, set, frozenset)):
        if depth > 4:
            return ("l", len(v))
        items = [_snap_value(x, depth + 1) for x in (sorted(v, key=repr) if isinstance(v, (set, frozenset)) else v)]
        return (type(v).__name__, tuple(items))
    if isinstance(v, types.ModuleType):
        return ("m", v.__name__)
    return ("o", type(v).__name__, id(v))


def global_state():
    """Snapshot of every module-level data object of iodata.* plus process-global numeric/warning state."""
    snap = {}
    for name, mod in sorted(sys.modules.items()):
        if mod is None or not (name == "iodata" or name.startswith("iodata.")) or ".test" in name:
            continue
        for var, val in sorted(vars(mod).items()):
            if var.startswith("__") or isinstance(val, (types.FunctionType, type, types.ModuleType, types.BuiltinFunctionType)):
                continue
            if callable(val) and not isinstance(val, (dict, list)):
                continue
            snap[f"{name}.{var}"] = _snap_value(val)
    snap["numpy.errstate"] = _snap_value(np.geterr())
    snap["warnings.filters"] = ("n", len(warnings.filters), repr(warnings.filters[:5]))
    return snap


class _Quiet:
    """Context proxy: the wrapped harness explores its paths, its own obligations are not re-counted here."""

    def __init__(self, ctx, cache=None, prefix=""):
        object.__setattr__(self, "_ctx", ctx)
        object.__setattr__(self, "_cache", cache if cache is not None else {})
        object.__setattr__(self, "_prefix", prefix)

    def __getattr__(self, name):
        return getattr(self._ctx, name)

    def __setattr__(self, name, value):
        setattr(self._ctx, name, value)

    def oblige(self, *a, **k):
        return True

    def record(self, *a, **k):
        return None

    def real(self, name, **kw):
        c = self._cache
        if name not in c:
            c[name] = self._ctx.real(self._prefix + name, **kw)
        return c[name]

    def int(self, name, **kw):
        c = self._cache
        if ("i", name) not in c:
            c[("i", name)] = self._ctx.int(self._prefix + name, **kw)
        return c[("i", name)]

    def bool(self, name, **kw):
        c = self._cache
        if ("b", name) not in c:
            c[("b", name)] = self._ctx.bool(self._prefix + name, **kw)
        return c[("b", name)]

    def real_array(self, name, shape, **kw):
        from symx.symnp import SymArray
        shape = (shape,) if isinstance(shape, int) else tuple(shape)
        out = np.empty(shape, dtype=object if self._ctx.mode == "sym" else float)
        for idx in np.ndindex(shape):
            out[idx] = self.real(name + "_" + "_".join(map(str, idx)), **kw)
        return out.view(SymArray) if self._ctx.mode == "sym" else out

    def declare_reciprocal(self, x, name=None):
        c = self._cache
        key = ("r", name)
        if key not in c:
            c[key] = self._ctx.declare_reciprocal(x, (self._prefix + name) if name else None)
        return c[key]


class _Replay(_Quiet):
    """Second run of A in an A;B;A history: the nondeterministic choices of the first run are repeated."""

    def __init__(self, ctx, cache, choices):
        super().__init__(ctx, cache)
        object.__setattr__(self, "_choices", list(choices))
        object.__setattr__(self, "_pos", 0)

    def choice(self, items, label=None):
        items = list(range(items)) if isinstance(items, int) else list(items)
        k = self._choices[self._pos] if self._pos < len(self._choices) else 0
        object.__setattr__(self, "_pos", self._pos + 1)
        return items[k]


class _Record(_Quiet):
    def __init__(self, ctx, cache):
        super().__init__(ctx, cache)
        object.__setattr__(self, "_made", [])

    def choice(self, items, label=None):
        lst = list(range(items)) if isinstance(items, int) else list(items)
        v = self._ctx.choice(lst, label)
        self._made.append(lst.index(v))
        return v


def _call(module, fn, params):
    mod = importlib.import_module(module)
    return getattr(mod, fn), dict(params)


def h_invariant(ctx, module="harness.rt", fn="h_roundtrip", params=None, twin=False):
    """One API harness from the clean state: the global state is unchanged afterwards (on this path)."""
    import iodata.api  # noqa: F401  (make sure everything is imported before the snapshot)
    f, p = _call(module, fn, params or {})
    before = global_state()
    try:
        f(_Quiet(ctx), **p)
    finally:
        after = global_state()
        if twin:
            after = dict(after)
            after["iodata.periodic.num2sym"] = ("d", ())
        changed = [k for k in sorted(set(before) | set(after)) if before.get(k) != after.get(k)]
        tag = f"{fn}:{(params or {}).get('fmt', (params or {}).get('program', ''))}"
        ctx.oblige("module-level-state-unchanged-by-api-call", not changed, cls=tag, detail=str(changed[:6]))
        # put things back so that the concrete replay / further paths start from the clean state
        if changed and ctx.mode == "conc":
            pass


def _memfs_texts(ctx):
    if ctx.mode == "sym":
        return dict(ctx.scratch.get("memfs", {}))
    import os
    out = {}
    if ctx.tmpdir and os.path.isdir(ctx.tmpdir):
        for fnm in sorted(os.listdir(ctx.tmpdir)):
            with open(os.path.join(ctx.tmpdir, fnm)) as fh:
                out[fnm] = fh.read()
    return out


def h_aba(ctx, a=None, b=None):
    """A; B; A on one path: the files written by the two runs of A are identical token for token."""
    from harness import rt
    fa, pa = _call(*a)
    fb, pb = _call(*b)
    cache = {}
    ra = _Record(ctx, cache)
    ctx.scratch["loaded"] = []
    used0 = ctx.scratch.get("full_used", 0)
    r1 = fa(ra, **pa)
    l1 = list(ctx.scratch.get("loaded", []))
    t1 = _memfs_texts(ctx)
    try:
        ctx.scratch["full_used"] = used0
        fb(_Quiet(ctx, {}, prefix="B_"), **{k: v for k, v in pb.items()})
    except core.PathAbort:
        raise
    if ctx.mode == "sym":
        ctx.scratch["memfs"] = {}
    ctx.scratch["loaded"] = []
    ctx.scratch["full_used"] = used0         # the second run of A formats its numbers under the same width policy and budget
    r2 = fa(_Replay(ctx, cache, ra._made), **pa)
    l2 = list(ctx.scratch.get("loaded", []))
    t2 = _memfs_texts(ctx)
    if l1 or l2:
        # harnesses that load files written by an independent layout writer (C03): every load of the second run has the outcome
        # of the corresponding load of the first run
        tag = f"{a[1]}:{pa.get('fmt', '')}|{b[1]}:{pb.get('fmt', '')}"
        ctx.oblige("second-run-has-the-same-outcome", len(l1) == len(l2) and all(x[:2] == y[:2] and len(x[2]) == len(y[2])
                                                                                 for x, y in zip(l1, l2)),
                   cls=tag, detail=f"{[x[:2] for x in l1]} | then {[x[:2] for x in l2]}"[:300])
        for x, y in zip(l1, l2):
            for o1, o2 in zip(x[2], y[2]):
                for where, f in rt._value_equal(ctx, rt.snapshot(ctx, o1), rt.snapshot(ctx, o2), "obj"):
                    ctx.oblige("second-run-returns-the-same-object", f, cls=f"{tag}:{where[:50]}")
    if isinstance(r1, dict) and isinstance(r2, dict) and "out" in r1:
        # a loading call: same kind of outcome, same message, same objects (as terms)
        tag = f"{a[1]}:{pa.get('fmt', '')}|{b[1]}:{pb.get('fmt', '')}"
        ctx.oblige("second-run-has-the-same-outcome", r1["out"] == r2["out"] and r1["msg"] == r2["msg"] and len(r1["objs"]) == len(r2["objs"]),
                   cls=tag, detail=f"{r1['out']}: {r1['msg']} | then {r2['out']}: {r2['msg']}")
        for o1, o2 in zip(r1["objs"], r2["objs"]):
            for where, f in rt._value_equal(ctx, rt.snapshot(ctx, o1), rt.snapshot(ctx, o2), "obj"):
                ctx.oblige("second-run-returns-the-same-object", f, cls=f"{tag}:{where[:50]}")
    keys = sorted(set(t1) & set(t2))
    ok_all = True
    for k in keys:
        ok = rt._text_equal(ctx, t1[k], t2[k]) if ctx.mode == "sym" else t1[k] == t2[k]
        ctx.oblige("second-run-writes-the-same-file", ok, cls=f"{a[1]}:{pa.get('fmt', '')}|{b[1]}:{pb.get('fmt', '')}", detail=k)
    ctx.oblige("same-files-written", set(t1) <= set(t2) or not t1, cls=f"{a[1]}|{b[1]}")


def h_interleaved(ctx, fmt="mol2", nframes=3, other="xyz"):
    """A lazily consumed load_many with other complete loads between its frames (one thread): every frame equals the frame
    of an uninterrupted run, and the loads in between equal their stand-alone results."""
    import iodata.api as api
    from harness import c13, rt
    from iodata.utils import LoadError
    mods = rt._fmt_modules({"gro": "gromacs"}.get(fmt, fmt)) + rt._fmt_modules({"gro": "gromacs"}.get(other, other))
    ext = {"gro": "m.gro", "xyz": "m.xyz", "sdf": "m.sdf", "mol2": "m.mol2", "pdb": "m.pdb"}
    from symx.stubs import stubbed
    with stubbed(*mods):
        texts = [c13._layout_frame(ctx, fmt, k, f"frame number {k}") for k in range(nframes)]
        path = ctx.tmp_path(ext[fmt])
        ctx.write_text(path, "".join(texts))
        otext = c13._layout_frame(_Quiet(ctx, {}, prefix="o_"), other, 1, "the other file")
        opath = ctx.tmp_path("other." + ext[other].split(".", 1)[1])
        ctx.write_text(opath, otext)
        with warnings.catch_warnings(record=True):
            warnings.simplefilter("always")
            try:
                ref = list(api.load_many(path))
                oref = api.load_one(opath)
            except LoadError:
                return           # not loadable on its own: outside this obligation
            got, others, err = [], [], None
            try:
                it = api.load_many(path)
                for d in it:
                    got.append(d)
                    others.append(api.load_one(opath))
            except LoadError as e:
                err = e
    cls = f"{fmt}|{other}"
    ctx.oblige("interleaved-iteration-completes", err is None and len(got) == len(ref), cls=cls,
               detail=f"{len(got)} of {len(ref)} frames; {err}")
    for k, (a, b) in enumerate(zip(got, ref)):
        for where, f in rt._value_equal(ctx, rt.snapshot(ctx, a), rt.snapshot(ctx, b), "frame"):
            ctx.oblige("frame-equals-uninterrupted-run", f, cls=f"{cls},frame={k}:{where[:40]}")
    for o in others:
        for where, f in rt._value_equal(ctx, rt.snapshot(ctx, o), rt.snapshot(ctx, oref), "other"):
            ctx.oblige("load-between-frames-equals-stand-alone-load", f, cls=f"{cls}:{where[:40]}")


def h_same_object(ctx, first="fchk", second="molden"):
    """One object dumped to format `first` and then to format `second` (allow_changes=True, so that the writers may convert a
    generalized basis the way they need): the second dump has the outcome and writes the file that the same call gives on a
    fresh, equal object."""
    import iodata.api as api
    from iodata.iodata import IOData
    from iodata.utils import DumpError, PrepareDumpError
    from harness import c01, rt, wfobj
    from symx.stubs import stubbed
    mods = rt._fmt_modules(first) + [m for m in rt._fmt_modules(second) if m not in rt._fmt_modules(first)]
    # an SP shell and another generalized contraction: the writers disagree on how such a basis must be segmented
    shells = [(0, [0, 1], ["c", "c"], 2), (1, [0, 0], ["c", "c"], 2)]
    with stubbed(*mods):
        cache = {}
        ra = _Record(ctx, cache)
        kw1 = wfobj.make_wf(ra, c01.ATOMS, shells, conv="horton2", mo_kind="restricted", norb=2, occ="closed")
        kw2 = wfobj.make_wf(_Replay(ctx, cache, ra._made), c01.ATOMS, shells, conv="horton2", mo_kind="restricted", norb=2,
                            occ="closed")
        used, fresh = IOData(**kw1), IOData(**kw2)

        def dump(obj, fmt, tag):
            path = ctx.tmp_path(tag + "." + c01.FILENAMES[fmt])
            with warnings.catch_warnings(record=True):
                warnings.simplefilter("always")
                try:
                    api.dump_one(obj, path, allow_changes=True)
                    return "ok", ctx.read_text(path)
                except (PrepareDumpError, DumpError) as e:
                    return type(e).__name__, None
        dump(used, first, "a")
        out1, t1 = dump(used, second, "b")
        out2, t2 = dump(fresh, second, "c")
    cls = f"{first};{second}"
    ctx.oblige("dump-after-another-dump-has-the-outcome-of-a-fresh-object", out1 == out2, cls=cls, detail=f"{out1} vs fresh {out2}")
    if t1 is not None and t2 is not None:
        ctx.oblige("dump-after-another-dump-writes-the-file-of-a-fresh-object",
                   rt._text_equal(ctx, t1, t2) if ctx.mode == "sym" else t1 == t2, cls=cls)


POOL = []


def _pool(tier):
    pool = []
    for fmt, var, n in (("xyz", "default", 2), ("pdb", "bonds", 3), ("mol2", "bonds", 3), ("sdf", "bonds", 3), ("poscar", "lower", 3),
                        ("cube", "234", 2), ("fcidump", "sym", 2)):
        pool.append(("harness.rt", "h_roundtrip", dict(fmt=fmt, natom=n, variant=var, prop="C02")))
    for fmt in ("fchk", "molden", "molekel", "wfn", "wfx"):
        pool.append(("harness.c01", "h_convert", dict(fmt=fmt, shells="sp", conv="horton2")))
    pool.append(("harness.c01", "h_convert", dict(fmt="wfx", shells="sp", conv="own", ecp=True)))
    pool.append(("harness.c03", "h_gro", dict(natom=2, nframes=1)))
    pool.append(("harness.c03", "h_sdf", dict(natom=3, nbond=1)))
    pool.append(("harness.c03", "h_vasp", dict(kind="chgcar")))
    pool.append(("harness.c03", "h_xyz", dict(nframes=2, ext=True)))
    pool.append(("harness.c03", "h_fchk", dict(basis="sp", spin="restricted", props=True)))
    pool.append(("harness.c03", "h_fchk_trajectory", dict(kind="Opt", npoint=2)))
    pool.append(("harness.c03", "h_wfx", dict(order="standard-p", nprim=1)))
    pool.append(("harness.c03", "h_mwfn", dict(dtype=-2, spin="restricted")))
    pool.append(("harness.c03", "h_molden_layout", dict(fmt="molekel", dkind="p", spin="unrestricted")))
    pool.append(("harness.c03", "h_gaussian_log", dict(nbasis=6)))
    for fmt, var in (("fchk", "post"), ("wfx", "full"), ("molden", "ecp"), ("molekel", "uhf"), ("json", "full")):
        pool.append(("harness.rt", "h_roundtrip", dict(fmt=fmt, natom=2, variant=var, prop="C02")))
    # failing and succeeding loads of every reader (fixture cut at any of its first 30 line boundaries)
    from harness import c07
    for fmt, fn, many in c07.FIXTURES:
        pool.append(("harness.c07", "h_parser", dict(fmt=fmt, fn=fn, many=many, fault="truncate", max_lines=30)))
    pool.append(("harness.c08", "h_required", dict(fmt="xyz")))
    pool.append(("harness.c08", "h_rejection", dict(fmt="wfn")))
    pool.append(("harness.c08", "h_misc", {}))
    pool.append(("harness.c13", "h_dump_load_many", dict(fmt="pdb", nframes=2)))
    pool.append(("harness.c19", "h_write_input", dict(program="gaussian", natom=2)))
    pool.append(("harness.c19", "h_write_input", dict(program="orca", natom=2, tname="t1")))
    return pool


def jobs(tier):
    M = "harness.c16"
    out = []
    pool = _pool(tier)
    for i, (m, f, p) in enumerate(pool):
        out.append(job("C16", f"invariant[{f},{p.get('fmt', p.get('program', p.get('kind', i)))}#{i}]", M, "h_invariant",
                       dict(module=m, fn=f, params=p), budget_s=300, max_validate=2, max_paths=300))
    out.append(job("C16", "invariant[twin]", M, "h_invariant",
                   dict(module="harness.c19", fn="h_write_input", params=dict(program="orca", natom=1), twin=True), expect="cex",
                   max_validate=0, max_paths=4))
    # A;B;A for loading calls, incl. failing ones: a cut file (A) around a complete file of the same and of another format (B)
    loads = [("wfx", "h2_ub3lyp_ccpvtz.wfx"), ("wfn", "he_s_orbital.wfn"), ("fchk", "h_sto3g.fchk"), ("xyz", "water_element.xyz"),
             ("pdb", "water_single.pdb"), ("mwfn", "ch3_rohf_sto3g_g03_fchk_multiwfn3.7.mwfn"), ("molekel", "h2_sto3g.mkl"),
             ("json_qcschema", "water_full.json"), ("gaussianinput", "water.com"), ("sdf", "example.sdf")]
    for i, (fmt, fn) in enumerate(loads):
        a = ("harness.c07", "h_parser", dict(fmt=fmt, fn=fn, fault="truncate", max_lines=40))
        same = ("harness.c07", "h_parser", dict(fmt=fmt, fn=fn, fault="none", max_lines=100000))
        ofmt, ofn = loads[(i + 3) % len(loads)]
        other = ("harness.c07", "h_parser", dict(fmt=ofmt, fn=ofn, fault="none", max_lines=100000))
        for b, tag in ((same, "same-format"), (other, "other-format")):
            out.append(job("C16", f"A;B;A-load[{fmt}|{tag}]", M, "h_aba", dict(a=list(a), b=list(b)), budget_s=300, max_validate=2,
                           max_paths=120))
    # A;B;A for files in published layouts (independent writers): a file that leaves something to the reader's fall-back rules (A)
    # around a file of the same format that spells it out (B), and the reverse
    layout_pairs = [
        (("harness.c03", "h_pdb", dict(natom=4, element_column=False)), ("harness.c03", "h_pdb", dict(natom=4))),
        (("harness.c03", "h_pdb", dict(natom=4)), ("harness.c03", "h_pdb", dict(natom=4, element_column=False))),
        (("harness.c03", "h_xyz", dict(nframes=1, ext=True)), ("harness.c03", "h_xyz", dict(nframes=2, ext=False))),
        (("harness.c03", "h_gro", dict(natom=2, nframes=1)), ("harness.c03", "h_gro", dict(natom=3, nframes=2))),
        (("harness.c03", "h_sdf", dict(natom=3, nbond=1)), ("harness.c03", "h_mol2", dict(natom=3))),
        (("harness.c03", "h_mol2", dict(natom=3)), ("harness.c03", "h_sdf", dict(natom=3, nbond=1))),
    ]
    for k, (a, b) in enumerate(layout_pairs):
        out.append(job("C16", f"A;B;A-layout[{a[1]}|{b[1]}#{k}]", M, "h_aba", dict(a=list(a), b=list(b)), budget_s=300,
                       max_validate=2, max_paths=60))
    # one object through two writers that need different conversions of its basis
    wfs = ("fchk", "molden", "molekel", "wfn", "wfx")
    for a in wfs:
        for b in wfs:
            if a != b and ("fchk" in (a, b) or tier == "thorough"):
                out.append(job("C16", f"same-object[{a};{b}]", M, "h_same_object", dict(first=a, second=b), budget_s=300,
                               max_validate=2, max_paths=60))
    # a lazily consumed trajectory with other loads between its frames
    for fmt, other in (("mol2", "xyz"), ("xyz", "mol2"), ("sdf", "pdb"), ("pdb", "sdf"), ("gro", "xyz"), ("mol2", "mol2"), ("xyz", "xyz")):
        out.append(job("C16", f"interleaved[{fmt}|{other}]", M, "h_interleaved", dict(fmt=fmt, nframes=3, other=other), budget_s=300,
                       max_validate=2, max_paths=50))
    # A;B;A: writers (A) against every other call (B)
    writers = [x for x in pool if x[1] in ("h_roundtrip", "h_convert", "h_write_input")]
    pairs = []
    for ia, a in enumerate(writers):
        others = pool if tier == "thorough" else [pool[(ia * 3 + 5) % len(pool)], pool[11]]   # pool[11] = wfx dump
        for b in others:
            if a is b:
                continue
            pairs.append((a, b))
    for k, (a, b) in enumerate(pairs):
        out.append(job("C16", f"A;B;A[{a[1]}:{a[2].get('fmt', a[2].get('program'))}|{b[1]}:{b[2].get('fmt', b[2].get('program', b[2].get('kind', '')))}#{k}]",
                       M, "h_aba", dict(a=list(a), b=list(b)), budget_s=300, max_validate=1, max_paths=60))
    return out
