"""C13 - trajectories keep every frame, in order, each identical to a single load."""

from __future__ import annotations

import warnings

import numpy as np

from harness import rt
from symx import core, tokens
from symx.core import And, Not, Or, Sym
from symx.runner import job
from symx.stubs import stubbed

META = dict(
    bounds=dict(
        quick="dump_many formats xyz, pdb, mol2, sdf: 1..3 frames with differing atom counts (1-3 atoms) and contents (all "
              "numbers symbolic), iterable given as list / generator / generator raising at frame k; load_many of the "
              "written file compared with per-frame dump_one + load_one; truncation of the file at every line boundary "
              "(nondeterministic end of file); one corrupted (garbled or missing) numeric field in any frame; load_many of gro / extxyz / fchk "
              "(PDB frames closed by END, by ENDMDL, by MODEL/ENDMDL with the title before or after the MODEL record) "
              "trajectories written by independent layout writers (1-3 optimisation / IRC points of 2, 1, 3 steps; the harnesses "
              "of C03); trajectories in the published layouts of gro, "
              "xyz, sdf, mol2, pdb with differing atom counts and one frame whose title is empty or blank: load_many == "
              "per-frame load_one",
        thorough="up to 5 frames"),
    outside=["more than 5 frames", "byte-level truncation inside a line", "multi-field corruption"],
    assumptions=["in-memory files; tokens for numbers; weaker reading of truncation: dropping an incomplete last frame is "
                 "accepted, yielding it with wrong/partial data silently is not"],
    explanation="symbolic execution of api.dump_many / api.load_many and the per-format frame loops",
)

FMT_VARIANT = dict(xyz="default", pdb="full", mol2="full", sdf="bonds")


def _frames(ctx, fmt, nframes, I):
    frames, exps = [], []
    for k in range(nframes):
        natom = [2, 1, 3, 2, 1][k]
        sub = _Prefixed(ctx, f"f{k}", k)
        kw, dkw, lkw, exp, tol = rt.BUILDERS[fmt](sub, natom, FMT_VARIANT[fmt])
        if kw.get("title") is not None:
            kw["title"] = f"{kw['title']} {k}"
            exp["title"] = kw["title"]
        frames.append(I.IOData(**kw))
        exps.append((exp, tol))
    return frames, exps


class _Prefixed:
    """Context proxy giving each frame its own variable names."""

    def __init__(self, ctx, prefix, k=0):
        self._ctx, self._p, self._k = ctx, prefix, k

    def __getattr__(self, name):
        return getattr(self._ctx, name)

    def real(self, name, **kw):
        return self._ctx.real(f"{self._p}_{name}", **kw)

    def int(self, name, **kw):
        return self._ctx.int(f"{self._p}_{name}", **kw)

    def real_array(self, name, shape, **kw):
        return self._ctx.real_array(f"{self._p}_{name}", shape, **kw)

    def choice(self, items, label=None):
        # structure varies deterministically with the frame index (no forks: C02 explores the menus)
        items = list(items)
        return items[(self._k + 1) % len(items)]


def _load_all(api, path, **kw):
    out = []
    err = None
    from iodata.utils import LoadError
    with warnings.catch_warnings(record=True) as wl:
        warnings.simplefilter("always")
        try:
            for d in api.load_many(path, **kw):
                out.append(d)
        except LoadError as e:
            err = e
    return out, err, wl


def _same_obj(ctx, a, b):
    parts = []
    for where, f in rt._value_equal(ctx, rt.snapshot(ctx, a), rt.snapshot(ctx, b), "frame"):
        if f is False:
            return False, where
        if f is not True:
            parts.append(f)
    return (And(*parts) if parts else True), None


def h_dump_load_many(ctx, fmt="xyz", nframes=2, iterable="list", twin=False):
    import iodata.api as api
    import iodata.iodata as I
    mods = rt._fmt_modules(fmt)
    with stubbed(*mods):
        frames, exps = _frames(ctx, fmt, nframes, I)
        pulls = []

        def gen():
            for i, f in enumerate(frames):
                pulls.append(i)
                yield f
        it = frames if iterable == "list" else gen()
        path = ctx.tmp_path(rt.FILENAMES[fmt])
        api.dump_many(it, path)
        if iterable != "list":
            ctx.oblige("iterable-pulled-once-per-frame-in-order", pulls == list(range(nframes)), cls=fmt)
        loaded, err, _ = _load_all(api, path)
        ctx.oblige("load_many-succeeds-on-dump_many-output", err is None, cls=fmt, detail=str(err))
        ctx.oblige("same-number-of-frames", len(loaded) == nframes, cls=f"{fmt},n={nframes}", detail=f"{len(loaded)}")
        for i in range(min(nframes, len(loaded))):
            p1 = ctx.tmp_path(f"single{i}." + rt.FILENAMES[fmt])
            api.dump_one(frames[i] if not twin else frames[(i + 1) % nframes], p1)
            with warnings.catch_warnings(record=True):
                warnings.simplefilter("always")
                single = api.load_one(p1)
            f, where = _same_obj(ctx, loaded[i], single)
            ctx.oblige("frame-equals-single-save-and-reload", f, cls=f"{fmt},frame={i}", detail=where)


def h_dump_many_lazy(ctx, fmt="xyz", nframes=3):
    """A generator raising mid-way: the error propagates, nothing is pulled afterwards, earlier frames are written."""
    import iodata.api as api
    import iodata.iodata as I
    mods = rt._fmt_modules(fmt)

    class Boom(RuntimeError):
        pass
    with stubbed(*mods):
        frames, _ = _frames(ctx, fmt, nframes, I)
        k = ctx.choice(list(range(nframes + 1)), label="raise-before-frame")
        pulls = []

        def gen():
            for i, f in enumerate(frames):
                if i == k:
                    pulls.append(("raise", i))
                    raise Boom()
                pulls.append(("yield", i))
                yield f
        path = ctx.tmp_path(rt.FILENAMES[fmt])
        from iodata.utils import DumpError
        try:
            api.dump_many(gen(), path)
            out = "ok"
        except Boom:
            out = "Boom"
        except DumpError as e:
            out = "DumpError" if isinstance(e.__cause__, Boom) or isinstance(e.__context__, Boom) else "DumpError?"
        except Exception as e:
            out = type(e).__name__
        cls = f"{fmt},k={k}"
        if k >= nframes:
            ctx.oblige("complete-iteration-succeeds", out == "ok" and pulls == [("yield", i) for i in range(nframes)], cls=cls)
        else:
            ctx.oblige("iterator-error-propagates", out in ("Boom", "DumpError"), cls=cls, detail=out)
            ctx.oblige("lazy-single-pass", pulls == [("yield", i) for i in range(k)] + [("raise", k)], cls=cls,
                       detail=str(pulls))


def h_load_many_truncated(ctx, fmt="xyz", nframes=2):
    """Every cut at a line boundary: only complete frames are yielded (or an error / warning is raised)."""
    import iodata.api as api
    import iodata.iodata as I
    mods = rt._fmt_modules(fmt)
    with stubbed(*mods):
        frames, _ = _frames(ctx, fmt, nframes, I)
        path = ctx.tmp_path(rt.FILENAMES[fmt])
        api.dump_many(frames, path)
        full, err0, _ = _load_all(api, path)
        if err0 is not None or len(full) != nframes:
            return
        text = ctx.read_text(path)
        lines = text.splitlines(keepends=True)
        cut = ctx.choice(list(range(0, len(lines))), label="cut-after-line")
        p2 = ctx.tmp_path("cut." + rt.FILENAMES[fmt])
        ctx.write_text(p2, "".join(lines[:cut]))
        got, err, wl = _load_all(api, p2)
        cls = f"{fmt},nframes={nframes}"
        ctx.oblige("no-more-frames-than-the-file-has", len(got) <= nframes, cls=cls)
        warned = len(wl) > 0
        for i, d in enumerate(got):
            f, where = _same_obj(ctx, d, full[i])
            if f is True:
                continue
            # a frame that differs from the complete one was yielded: only acceptable with a warning or error
            ok = Or(f, warned or err is not None) if not isinstance(f, bool) else (f or warned or err is not None)
            ctx.oblige("truncated-file-never-yields-a-partial-frame-silently", ok, cls=f"{fmt},frame={i}",
                       detail=f"cut={cut}/{len(lines)} differs in {where}")


def h_load_many_corrupt(ctx, fmt="xyz", nframes=3):
    """One corrupted numeric field in frame k raises LoadError when reached; earlier frames are intact."""
    import iodata.api as api
    import iodata.iodata as I
    mods = rt._fmt_modules(fmt)
    with stubbed(*mods):
        frames, _ = _frames(ctx, fmt, nframes, I)
        path = ctx.tmp_path(rt.FILENAMES[fmt])
        api.dump_many(frames, path)
        full, err0, _ = _load_all(api, path)
        if err0 is not None or len(full) != nframes:
            return
        k = ctx.choice(list(range(nframes)), label="corrupt-frame")
        kind = ctx.choice(["garble", "blank"], label="corruption")     # "?????" in the field / the field is missing
        fill = "?" if kind == "garble" else " "
        text = ctx.read_text(path)
        # the first coordinate of the first atom of frame k
        if ctx.mode == "sym":
            target = None
            for tok in ctx.scratch.get("tokens", []):
                if tok.sym is frames[k].atcoords[0, 0] or (isinstance(tok.sym, Sym) and f"f{k}_x0_0" in str(tok.sym.t)):
                    if tok.text in text:
                        target = tok.text
                        break
            if target is None:
                raise core.PathAbort("token of the field to corrupt not found")
            bad = text.replace(target, fill * len(target), 1)
        else:
            # concrete replay: corrupt the same field by locating frame k's first atom line
            bad = _corrupt_concrete(fmt, text, k, fill)
        p2 = ctx.tmp_path("bad." + rt.FILENAMES[fmt])
        ctx.write_text(p2, bad)
        got, err, wl = _load_all(api, p2)
        cls = f"{fmt},frame={k}/{nframes},{kind}"
        ctx.oblige("malformed-frame-raises-LoadError-when-reached", err is not None, cls=cls,
                   detail=f"yielded {len(got)} frames, error={err}")
        ctx.oblige("frames-before-the-malformed-one-are-yielded", len(got) == k, cls=cls, detail=f"{len(got)}")


def h_extxyz_mixed(ctx, order=(0, 1, 0)):
    """Extended XYZ trajectory whose frames declare different per-atom columns: each frame as a single load."""
    import iodata.api as api
    mods = rt._fmt_modules("extxyz") + rt._fmt_modules("xyz")

    def frame(k, kind):
        x = [ctx.real(f"f{k}x{i}_{c}", lo=-90, hi=90, default=0.5 * i + c) for i in range(2) for c in range(3)]
        if kind == 0:      # species only: the species column defines the elements
            head = 'Properties=species:S:1:pos:R:3 comment="species only"'
            lines = [f"O {x[0]:14.8f} {x[1]:14.8f} {x[2]:14.8f}", f"H {x[3]:14.8f} {x[4]:14.8f} {x[5]:14.8f}"]
        else:              # species labels plus explicit atomic numbers
            head = 'Properties=species:S:1:pos:R:3:Z:I:1 comment="labels and Z"'
            lines = [f"OW {x[0]:14.8f} {x[1]:14.8f} {x[2]:14.8f} 8", f"HW {x[3]:14.8f} {x[4]:14.8f} {x[5]:14.8f} 1"]
        return "2\n" + head + "\n" + "\n".join(lines) + "\n"
    with stubbed(*mods):
        texts = [frame(k, kind) for k, kind in enumerate(order)]
        path = ctx.tmp_path("traj.extxyz")
        ctx.write_text(path, "".join(texts))
        got, err, _ = _load_all(api, path)
        cls = f"extxyz,order={order}"
        ctx.oblige("trajectory-loads", err is None, cls=cls, detail=f"{err} / {getattr(err, '__cause__', None)!r}")
        ctx.oblige("same-number-of-frames", len(got) == len(order), cls=cls, detail=str(len(got)))
        for i, t in enumerate(texts[:len(got)]):
            p1 = ctx.tmp_path(f"single{i}.extxyz")
            ctx.write_text(p1, t)
            with warnings.catch_warnings(record=True):
                warnings.simplefilter("always")
                single = api.load_one(p1)
            f, where = _same_obj(ctx, got[i], single)
            ctx.oblige("frame-equals-single-load", f, cls=f"{cls},frame={i}", detail=where)


def _layout_frame(ctx, fmt, k, title, pdb_style="END", last=False):
    """One frame in the published layout (specs.layouts, no iodata code): text of a single-frame file."""
    from specs import layouts as L
    natom = [2, 1, 3, 2, 1][k % 5]
    xyz = [[ctx.real(f"t{k}x{i}_{c}", lo=-90, hi=900, default=1.5 * c - i + 0.25 * k) for c in range(3)] for i in range(natom)]
    zs = [[8, 1, 6][(i + k) % 3] for i in range(natom)]
    if fmt == "gro":
        atoms = [(1 + i, "SOL", ["OW", "HW1", "HW2"][i % 3], 1 + i, *xyz[i], None) for i in range(natom)]
        box = [[3.0 + k if r == c else 0.0 for c in range(3)] for r in range(3)]
        return L.write_gro(dict(frames=[dict(title=title, time=None, atoms=atoms, box=box, triclinic=False)]))
    if fmt == "xyz":
        return L.write_xyz(dict(frames=[dict(title=title, atoms=[(L.NUM2SYM[z], *xyz[i]) for i, z in enumerate(zs)])]))
    if fmt == "sdf":
        bonds = [(1, 2, 1)] if natom >= 2 else []
        return L.write_sdf(dict(title=title, atoms=[(z, *xyz[i]) for i, z in enumerate(zs)], bonds=bonds))
    if fmt == "mol2":
        atoms = [(f"{L.NUM2SYM[z]}{i + 1}", *xyz[i], {8: "O.3", 1: "H", 6: "C.3"}[z], 0.25 * i - 0.1) for i, z in enumerate(zs)]
        return L.write_mol2(dict(title=title, atoms=atoms, bonds=[(1, 2, "1")] if natom >= 2 else []))
    if fmt == "pdb":
        atoms = [(i + 1, f"{L.NUM2SYM[z]}{i + 1}", "MOL", "A", 1, *xyz[i], 1.0, 0.0, z) for i, z in enumerate(zs)]
        t = L.write_pdb(dict(title=title, atoms=atoms))
        # the ways programs close the frames of a PDB trajectory: END / ENDMDL alone / MODEL n ... ENDMDL with the title
        # before or after the MODEL record and one END at the end of the file
        body = t[:-4]
        if pdb_style == "ENDMDL":
            return body + "ENDMDL\n"
        if pdb_style == "MODEL":
            ls = body.splitlines(keepends=True)
            return ls[0] + f"MODEL     {k + 1:4d}\n" + "".join(ls[1:]) + "ENDMDL\n" + ("END\n" if last else "")
        if pdb_style == "MODEL-first":
            return f"MODEL     {k + 1:4d}\n" + body + "ENDMDL\n" + ("END\n" if last else "")
        return t
    raise ValueError(fmt)


def h_text_trajectory(ctx, fmt="gro", nframes=3):
    """Trajectory files in the published layout, frames with and without titles: load_many == per-frame load_one."""
    import iodata.api as api
    from iodata.utils import LoadError
    mods = rt._fmt_modules({"gro": "gromacs"}.get(fmt, fmt))
    ext = {"gro": "m.gro", "xyz": "m.xyz", "sdf": "m.sdf", "mol2": "m.mol2", "pdb": "m.pdb"}[fmt]
    with stubbed(*mods):
        blank = ctx.choice(list(range(nframes + 1)), label="frame-without-title")
        fill = ctx.choice(["", "   "], label="blank-kind") if blank < nframes else ""
        style = ctx.choice(["END", "ENDMDL", "MODEL", "MODEL-first"], label="frame-terminator") if fmt == "pdb" else "END"
        texts = [_layout_frame(ctx, fmt, k, fill if k == blank else f"frame number {k}", pdb_style=style, last=k == nframes - 1)
                 for k in range(nframes)]
        singles = []
        for k, t in enumerate(texts):
            p1 = ctx.tmp_path(f"one{k}." + ext)
            ctx.write_text(p1, t)
            with warnings.catch_warnings(record=True):
                warnings.simplefilter("always")
                try:
                    singles.append(api.load_one(p1))
                except LoadError:
                    return              # a frame that is not loadable on its own is outside this obligation (C03)
        path = ctx.tmp_path(ext)
        ctx.write_text(path, "".join(texts))
        got, err, _ = _load_all(api, path)
        cls = f"{fmt},blank-title-in-frame={'none' if blank == nframes else blank}" + (f",{style}" if fmt == "pdb" else "")
        ctx.oblige("trajectory-loads", err is None, cls=cls, detail=str(err))
        ctx.oblige("one-object-per-frame-in-the-file", len(got) == nframes, cls=cls, detail=f"{len(got)} of {nframes}")
        for k in range(min(len(got), nframes)):
            f, where = _same_obj(ctx, got[k], singles[k])
            ctx.oblige("frame-equals-single-frame-load", f, cls=f"{fmt},frame={k}", detail=where)


def _corrupt_concrete(fmt, text, k, fill="?"):
    lines = text.splitlines(keepends=True)
    starts = []
    if fmt == "xyz":
        i = 0
        while i < len(lines):
            n = int(lines[i])
            starts.append(i + 2)
            i += n + 2
        cols = None
    elif fmt == "pdb":
        seen_atom = False
        for i, l in enumerate(lines):
            if l.startswith("ATOM") and not seen_atom:
                starts.append(i)
                seen_atom = True
            if l.startswith("END"):
                seen_atom = False
    elif fmt == "mol2":
        starts = [i + 1 for i, l in enumerate(lines) if l.startswith("@<TRIPOS>ATOM")]
    elif fmt == "sdf":
        starts = [i + 1 for i, l in enumerate(lines) if l.rstrip().endswith("V2000")]
    li = starts[k]
    line = lines[li]
    import re
    floats = list(re.finditer(r"-?\d+\.\d+", line))
    m = floats[0]
    lines[li] = line[:m.start()] + fill * (m.end() - m.start()) + line[m.end():]
    return "".join(lines)


def jobs(tier):
    M = "harness.c13"
    out = []
    nmax = 5 if tier == "thorough" else 3
    for fmt in ("xyz", "pdb", "mol2", "sdf"):
        for n in range(1, nmax + 1):
            for it in ("list", "generator"):
                if it == "generator" and n != 2:
                    continue
                out.append(job("C13", f"dump-load-many[{fmt},n={n},{it}]", M, "h_dump_load_many",
                               dict(fmt=fmt, nframes=n, iterable=it), budget_s=300, max_validate=3, max_paths=400))
        out.append(job("C13", f"dump-many-lazy[{fmt}]", M, "h_dump_many_lazy", dict(fmt=fmt, nframes=3), max_validate=4,
                       max_paths=400))
        out.append(job("C13", f"load-many-truncated[{fmt}]", M, "h_load_many_truncated", dict(fmt=fmt, nframes=2),
                       budget_s=300, max_validate=0, validate=False, max_paths=600))
        out.append(job("C13", f"load-many-corrupt[{fmt}]", M, "h_load_many_corrupt", dict(fmt=fmt, nframes=3),
                       budget_s=300, max_validate=3, max_paths=400))
    for fmt in ("gro", "xyz", "sdf", "mol2", "pdb"):
        out.append(job("C13", f"text-trajectory[{fmt}]", M, "h_text_trajectory", dict(fmt=fmt, nframes=nmax), budget_s=300,
                       max_validate=4, max_paths=200))
    for kind in ("Opt", "IRC"):
        for npoint in (1, 2, 3):
            out.append(job("C13", f"fchk-trajectory[{kind},points={npoint}]", "harness.c03", "h_fchk_trajectory", dict(kind=kind, npoint=npoint),
                           max_validate=3))
    out.append(job("C13", "gro-trajectory[3 frames]", "harness.c03", "h_gro", dict(natom=2, nframes=3, vel=True, triclinic=False, time=True),
                   max_validate=2))
    out.append(job("C13", "extxyz-trajectory[3 frames]", "harness.c03", "h_xyz", dict(nframes=3, ext=True), max_validate=2))
    out.append(job("C13", "extxyz-trajectory[identical titles, user columns]", "harness.c03", "h_xyz",
                   dict(nframes=3, ext=True, same_title=True), max_validate=2))
    for order in ((0, 1), (1, 0), (0, 1, 0)):
        out.append(job("C13", f"extxyz-mixed-columns[{order}]", M, "h_extxyz_mixed", dict(order=list(order)), max_validate=2))
    out.append(job("C13", "dump-load-many[twin]", M, "h_dump_load_many", dict(fmt="xyz", nframes=2, twin=True),
                   expect="cex", max_validate=0, max_paths=50))
    return out
