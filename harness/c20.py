"""C20 - numerical helpers return what their documentation says (iodata/utils.py)."""

from __future__ import annotations

import itertools

import numpy as np

from symx import core
from symx.core import And, Not, Or, Sym
from symx.runner import job
from symx.stubs import stubbed

META = dict(
    bounds=dict(
        quick="volume: 1..3 symbolic cell vectors (all reals) + shapes (3,), (0,3), (4,3); "
              "set_four_index_element: all integer index quadruples and probe positions (unbounded ints); "
              "check_dm: n<=3 symbolic occupations, eps, occ_max; derive_naturals: set-up for n<=3, "
              "full semantics n=1; strtobool: CrossHair, len<=5, and every documented word under a symbolic upper/lower case mask",
        thorough="as quick + derive_naturals semantics n=2 (NRA, may stay unknown), strtobool len<=6"),
    outside=["LAPACK eigh itself (replaced by its documented contract)", "matrix sizes >= 4",
             "floating-point rounding (exact real arithmetic)"],
    assumptions=["exact real arithmetic instead of IEEE doubles",
                 "scipy.linalg.eigh replaced by fresh symbols constrained by its documented contract "
                 "(A V = B V diag(w), V^T B V = I)",
                 "np.linalg.norm/det/cross modelled on terms (symnp)",
                 "check_dm: the '%e' error-message formatting concretises a value used only in the message"],
    explanation="symbolic execution of iodata.utils helpers with z3",
)


def h_volume(ctx, n=3, flat=False, twin=False):
    import iodata.utils as U
    if flat:
        a = ctx.real_array("a", (3,))
        gram = a[0] * a[0] + a[1] * a[1] + a[2] * a[2]
    else:
        a = ctx.real_array("a", (n, 3))
        g = [[sum(a[i, k] * a[j, k] for k in range(3)) for j in range(n)] for i in range(n)]
        if n == 1:
            gram = g[0][0]
        elif n == 2:
            gram = g[0][0] * g[1][1] - g[0][1] * g[1][0]
        else:
            gram = (g[0][0] * (g[1][1] * g[2][2] - g[1][2] * g[2][1])
                    - g[0][1] * (g[1][0] * g[2][2] - g[1][2] * g[2][0])
                    + g[0][2] * (g[1][0] * g[2][1] - g[1][1] * g[2][0]))
    with stubbed(U):
        v = U.volume(a)
    if twin:
        gram = gram + 1.0
    ctx.oblige("volume-nonnegative", v >= 0, cls=f"n={n}")
    if n == 3 and not flat and ctx.mode == "sym":
        # lemma (polynomial identity, decided by normalisation): det(A)^2 == det(A A^T);
        # then the solver only has to show v in {det, -det}
        det = (a[0, 0] * (a[1, 1] * a[2, 2] - a[1, 2] * a[2, 1])
               - a[0, 1] * (a[1, 0] * a[2, 2] - a[1, 2] * a[2, 0])
               + a[0, 2] * (a[1, 0] * a[2, 1] - a[1, 1] * a[2, 0]))
        ctx.oblige("lemma-det-squared-is-gram", ctx.eq(det * det, gram - (1.0 if twin else 0.0)), cls="n=3")
        ctx.oblige("volume-squared-is-gram-determinant", Or(ctx.eq(v, det), ctx.eq(v, -det)), cls="n=3")
        return
    ctx.oblige("volume-squared-is-gram-determinant", ctx.eq(v * v, gram, rtol=1e-7, atol=1e-9), cls=f"n={n}")


def h_volume_shape(ctx, n=0):
    import iodata.utils as U
    a = np.zeros((n, 3)) if ctx.mode == "conc" else core._symarray_cls()((n, 3), dtype=object)
    if n:
        a[...] = 1.0
    raised = False
    with stubbed(U):
        try:
            U.volume(a)
        except ValueError:
            raised = True
    ctx.oblige("bad-shape-raises-ValueError", raised, cls=f"n={n}")


class _ArrayModel:
    """Four-index array model: records every write at (possibly symbolic) integer positions."""

    def __init__(self):
        self.writes = []

    def __setitem__(self, key, value):
        self.writes.append((tuple(key), value))


def _orbit_positions(idx):
    """Eight-fold symmetry group generated independently from the three generators.

    Physicists' notation <i0 i1|i2 i3>: (a) exchange of the two electrons (i0<->i1, i2<->i3),
    (b) i0<->i2 (real orbitals, electron 1), (c) i1<->i3 (electron 2).
    """
    gens = [(1, 0, 3, 2), (2, 1, 0, 3), (0, 3, 2, 1)]
    group = {(0, 1, 2, 3)}
    frontier = [(0, 1, 2, 3)]
    while frontier:
        p = frontier.pop()
        for g in gens:
            q = tuple(p[g[k]] for k in range(4))
            if q not in group:
                group.add(q)
                frontier.append(q)
    assert len(group) == 8
    return [tuple(idx[p[k]] for k in range(4)) for p in sorted(group)]


def h_four_index(ctx, twin=False):
    import iodata.utils as U
    i = [ctx.int(f"i{k}", lo=0, default=k) for k in range(4)]
    p = [ctx.int(f"p{k}", lo=0, default=k) for k in range(4)]
    value = ctx.real("value", default=1.5)
    if ctx.mode == "conc":
        n = max(max(i), max(p)) + 1
        # the array starts with a sentinel that differs from the value, so that also a written 0.0 is observable
        sentinel = 7.25 if value != 7.25 else -3.5
        arr = np.full((n, n, n, n), sentinel)
        U.set_four_index_element(arr, *i, value)
        written = arr[tuple(p)] == value
        inorbit = any(tuple(q) == tuple(p) for q in _orbit_positions(i))
        if twin:
            inorbit = tuple(p) == tuple(i)
        ctx.oblige("writes-exactly-the-orbit", written == inorbit)
        return
    arr = _ArrayModel()
    U.set_four_index_element(arr, *i, value)
    written = Or(*[And(*[k == q for k, q in zip(key, p)]) for key, _ in arr.writes])
    allvalue = And(*[ctx.eq(v, value) for _, v in arr.writes])
    orbit = _orbit_positions(i)
    if twin:
        orbit = orbit[:1]
    inorbit = Or(*[And(*[k == q for k, q in zip(pos, p)]) for pos in orbit])
    ctx.oblige("writes-exactly-the-orbit", written == inorbit)
    ctx.oblige("writes-the-given-value", allvalue)


def h_check_dm(ctx, n=2, twin=False):
    import iodata.utils as U
    occs = ctx.real_array("occ", (n,), lo=-3, hi=3)
    eps = ctx.real("eps", lo=0, hi=1, default=1e-4)
    occ_max = ctx.real("occ_max", lo=0, hi=2, default=1.0)
    if ctx.mode == "conc":
        # a density matrix with exactly these natural occupations in an orthonormal basis
        dm = np.diag(occs)
        olp = np.eye(n)
        raised = False
        try:
            U.check_dm(dm, olp, eps, occ_max)
        except ValueError:
            raised = True
        lo = occs.min() < -eps
        hi = occs.max() > occ_max + eps
        oracle = lo or (hi if not twin else occs.max() > occ_max + eps + 0.5)
        # keep away from the floating-point boundary of the eigen-solver
        margin = min(abs(occs.min() + eps), abs(occs.max() - occ_max - eps))
        if margin < 1e-9:
            return
        ctx.oblige("raises-iff-occupations-out-of-range", raised == oracle)
        return
    ctx.scratch["allow_float_nan"] = True
    stub = lambda dm, overlap: (None, occs)
    raised = False
    with stubbed(U, extra=[(U, "derive_naturals", stub)]):
        try:
            U.check_dm(None, None, eps, occ_max)
        except ValueError:
            raised = True
    hi_thr = occ_max + eps + (0.5 if twin else 0.0)
    oracle = Or(Or(*[o < -eps for o in occs]), Or(*[o > hi_thr for o in occs]))
    ctx.oblige("raises-iff-occupations-out-of-range", oracle if raised else Not(oracle))


def h_naturals(ctx, n=1, semantic=False, twin=False):
    """derive_naturals with eigh replaced by its contract."""
    import iodata.utils as U
    d = ctx.real_array("d", (n, n), lo=-2, hi=2)
    s = ctx.real_array("s", (n, n), lo=-2, hi=2)
    # symmetric inputs (documented domain): use the lower triangle
    D = np.array([[d[max(i, j), min(i, j)] for j in range(n)] for i in range(n)], dtype=object)
    S = np.array([[s[max(i, j), min(i, j)] for j in range(n)] for i in range(n)], dtype=object)
    if ctx.mode == "conc":
        S = S.astype(float)
        D = D.astype(float)
        rec = {}
        real_eigh = U.eigh

        def spy(a, b):
            rec["a"], rec["b"] = np.array(a), np.array(b)
            try:
                return real_eigh(a, b)
            except Exception:
                if semantic:
                    raise
                return np.zeros(n), np.zeros((n, n))
        if semantic:
            try:
                np.linalg.cholesky(S)
            except np.linalg.LinAlgError:
                ctx.assume(False)
        U.eigh = spy
        try:
            C, occ = U.derive_naturals(D, S)
        finally:
            U.eigh = real_eigh
        sds = S @ D @ S
        if twin:
            sds[0, 0] += 1.0
        ctx.oblige("setup-sds", np.allclose(rec["a"], sds, atol=1e-9), cls=f"n={n}")
        ctx.oblige("setup-overlap", np.allclose(rec["b"], S, atol=1e-12), cls=f"n={n}")
        ctx.oblige("returns-eigh-output", C.shape == (n, n) and occ.shape == (n,), cls=f"n={n}")
        if semantic:
            ctx.oblige("orthonormal", np.allclose(C.T @ S @ C, np.eye(n), atol=1e-7), cls=f"n={n}")
            ctx.oblige("reconstructs-dm", np.allclose(C @ np.diag(occ) @ C.T, D, atol=1e-7), cls=f"n={n}")
        return
    S = S.view(core._symarray_cls())
    D = D.view(core._symarray_cls())
    rec = {}

    def eigh_stub(a, b):
        rec["a"], rec["b"] = a, b
        w = ctx.real_array("w", (n,))
        V = ctx.real_array("V", (n, n))
        # contract of scipy.linalg.eigh(a, b): a V = b V diag(w), V^T b V = I
        for i in range(n if semantic else 0):
            for j in range(n):
                lhs = sum(a[i, k] * V[k, j] for k in range(n))
                rhs = sum(b[i, k] * V[k, j] for k in range(n)) * w[j]
                ctx.assume(lhs == rhs)
                vbv = sum(V[k, i] * sum(b[k, l] * V[l, j] for l in range(n)) for k in range(n))
                ctx.assume(vbv == (1.0 if i == j else 0.0))
        rec["w"], rec["V"] = w, V
        return w, V

    with stubbed(U, extra=[(U, "eigh", eigh_stub)]):
        C, occ = U.derive_naturals(D, S)
    SDS = [[sum(S[i, k] * sum(D[k, l] * S[l, j] for l in range(n)) for k in range(n))
            for j in range(n)] for i in range(n)]
    if twin:
        SDS[0][0] = SDS[0][0] + 1.0
    ctx.oblige("setup-sds", ctx.eq(rec["a"], np.array(SDS, dtype=object)), cls=f"n={n}")
    ctx.oblige("setup-overlap", ctx.eq(rec["b"], S), cls=f"n={n}")
    ctx.oblige("returns-eigh-output", And(ctx.eq(C, rec["V"][:, :n]), ctx.eq(occ, rec["w"])), cls=f"n={n}")
    if semantic:
        # S positive definite (leading principal minors)
        if n == 1:
            ctx.assume(S[0, 0] > 0)
        else:
            ctx.assume(And(S[0, 0] > 0, S[0, 0] * S[1, 1] - S[0, 1] * S[1, 0] > 0))
        CtSC = [[sum(C[k, i] * sum(S[k, l] * C[l, j] for l in range(n)) for k in range(n))
                 for j in range(n)] for i in range(n)]
        ctx.oblige("orthonormal", And(*[ctx.eq(CtSC[i][j], 1.0 if i == j else 0.0)
                                        for i in range(n) for j in range(n)]), cls=f"n={n}",
                   timeout_ms=60000)
        CnCt = [[sum(C[i, k] * occ[k] * C[j, k] for k in range(n)) for j in range(n)] for i in range(n)]
        ctx.oblige("reconstructs-dm", And(*[ctx.eq(CnCt[i][j], D[i, j]) for i in range(n) for j in range(n)]),
                   cls=f"n={n}", timeout_ms=120000)


def jobs(tier):
    M = "harness.c20"
    out = []
    for n in (1, 2, 3):
        out.append(job("C20", f"volume[n={n}]", M, "h_volume", dict(n=n), budget_s=60))
    out.append(job("C20", "volume[flat]", M, "h_volume", dict(n=1, flat=True), budget_s=60))
    out.append(job("C20", "volume[n=2,twin]", M, "h_volume", dict(n=2, twin=True), expect="cex"))
    for n in (0, 4):
        out.append(job("C20", f"volume-shape[n={n}]", M, "h_volume_shape", dict(n=n)))
    out.append(job("C20", "four-index", M, "h_four_index", {}, budget_s=120))
    out.append(job("C20", "four-index[twin]", M, "h_four_index", dict(twin=True), expect="cex"))
    for n in (1, 2, 3):
        out.append(job("C20", f"check_dm[n={n}]", M, "h_check_dm", dict(n=n)))
    out.append(job("C20", "check_dm[n=2,twin]", M, "h_check_dm", dict(n=2, twin=True), expect="cex"))
    for n in (1, 2, 3):
        out.append(job("C20", f"naturals-setup[n={n}]", M, "h_naturals", dict(n=n), validate=False))
    out.append(job("C20", "naturals-setup[n=2,twin]", M, "h_naturals", dict(n=2, twin=True), expect="cex",
                   validate=False))
    out.append(job("C20", "naturals-semantic[n=1]", M, "h_naturals", dict(n=1, semantic=True),
                   budget_s=120))
    if tier == "thorough":
        out.append(job("C20", "naturals-semantic[n=2]", M, "h_naturals", dict(n=2, semantic=True),
                       budget_s=400, validate=False))
    out.append(job("C20", "crosshair[strtobool]", "harness.ch_contracts", "check_strtobool",
                   dict(file="harness/ch_contracts.py", func="check_strtobool", timeout=25 if tier == "quick" else 120), kind="crosshair"))
    out.append(job("C20", "crosshair[strtobool-case]", "harness.ch_contracts", "check_strtobool_case",
                   dict(file="harness/ch_contracts.py", func="check_strtobool_case", timeout=25 if tier == "quick" else 120), kind="crosshair"))
    return out
