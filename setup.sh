#!/bin/sh
# Build the verification venv offline: an overlay on /venv (which has numpy/scipy/attrs and the
# repo's deps) plus z3-solver, cvc5 and crosshair-tool from the offline wheelhouse.
# Idempotent; called by every check because only committed files survive a restore.
set -e
HERE="$(cd "$(dirname "$0")" && pwd)"
VENV="$HERE/.venv"
STAMP="$VENV/.ok3"
if [ -f "$STAMP" ]; then exit 0; fi
(
  flock 9
  if [ -f "$STAMP" ]; then exit 0; fi
  rm -rf "$VENV"
  /venv/bin/python -m venv "$VENV" >/dev/null
  SP="$VENV/lib/python3.12/site-packages"
  printf '/venv/lib/python3.12/site-packages\n/repo\n' > "$SP/_iodata_overlay.pth"
  PIP_NO_INDEX=1 "$VENV/bin/pip" install -q --no-index --find-links /opt/veriftools/wheels \
      z3-solver cvc5 crosshair-tool >/dev/null 2>"$VENV/pip.err" || { cat "$VENV/pip.err" >&2; exit 1; }
  "$VENV/bin/python" -c "import z3, cvc5, crosshair, numpy, iodata" 
  touch "$STAMP"
) 9>"$HERE/.setup.lock"
