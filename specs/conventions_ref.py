"""Documented basis-function orders of the file formats (independent transcription).

Sources:
* Gaussian formatted checkpoint / Gaussian ordering of Cartesian functions: d = XX YY ZZ XY XZ YZ,
  f = XXX YYY ZZZ XYY XXY XXZ XZZ YZZ YYZ XYZ; pure functions m = 0, +1, -1, +2, -2, ...
  (Gaussian manual, "Gen" / formatted checkpoint documentation).
* Molden format specification (https://www.theochem.ru.nl/molden/molden_format.html):
  5D: D 0, D+1, D-1, D+2, D-2;  6D: xx, yy, zz, xy, xz, yz;
  7F: F 0, F+1, F-1, F+2, F-2, F+3, F-3;  10F: xxx, yyy, zzz, xyy, xxy, xxz, xzz, yzz, yyz, xyz;
  9G: G 0, G+1, G-1, G+2, G-2, G+3, G-3, G+4, G-4;
  15G: xxxx yyyy zzzz xxxy xxxz yyyx yyyz zzzx zzzy xxyy xxzz yyzz xxyz yyxz zzxy.
* AIMPAC/AIMAll WFN primitive types 1..35: S, X Y Z, XX YY ZZ XY XZ YZ,
  XXX YYY ZZZ XXY XXZ YYZ XYY XZZ YZZ XYZ,
  XXXX YYYY ZZZZ XXXY XXXZ XYYY YYYZ XZZZ YZZZ XXYY XXZZ YYZZ XXYZ XYYZ XYZZ;
  types 36..56 (h): ZZZZZ YZZZZ YYZZZ YYYZZ YYYYZ YYYYY XZZZZ XYZZZ XYYZZ XYYYZ XYYYY XXZZZ XXYZZ
  XXYYZ XXYYY XXXZZ XXXYZ XXXYY XXXXZ XXXXY XXXXX (AIMAll documentation).
Cartesian labels are compared as power triples (the letter order inside a label is immaterial).
"""


def _pure(l):
    out = ["c0"]
    for m in range(1, l + 1):
        out += [f"c{m}", f"s{m}"]
    return out


_GAUSS_D = ["xx", "yy", "zz", "xy", "xz", "yz"]
_GAUSS_F = ["xxx", "yyy", "zzz", "xyy", "xxy", "xxz", "xzz", "yzz", "yyz", "xyz"]
_MOLDEN_G = ["xxxx", "yyyy", "zzzz", "xxxy", "xxxz", "yyyx", "yyyz", "zzzx", "zzzy", "xxyy", "xxzz", "yyzz",
             "xxyz", "yyxz", "zzxy"]
_WFN_F = ["xxx", "yyy", "zzz", "xxy", "xxz", "yyz", "xyy", "xzz", "yzz", "xyz"]
_WFN_G = ["xxxx", "yyyy", "zzzz", "xxxy", "xxxz", "xyyy", "yyyz", "xzzz", "yzzz", "xxyy", "xxzz", "yyzz",
          "xxyz", "xyyz", "xyzz"]
_WFN_H = ["zzzzz", "yzzzz", "yyzzz", "yyyzz", "yyyyz", "yyyyy", "xzzzz", "xyzzz", "xyyzz", "xyyyz", "xyyyy",
          "xxzzz", "xxyzz", "xxyyz", "xxyyy", "xxxzz", "xxxyz", "xxxyy", "xxxxz", "xxxxy", "xxxxx"]

def _alphabetical(l):
    """Cartesian functions of degree l in alphabetical order of their labels (xx, xy, xz, yy, yz, zz, ...)."""
    return ["x" * nx + "y" * ny + "z" * (l - nx - ny) for nx in range(l, -1, -1) for ny in range(l - nx, -1, -1)]


def _by_m(l):
    """Real solid harmonics by increasing m = -l..l: s_l ... s_1, c0, c1 ... c_l (LibInt / CCA standard)."""
    return [f"s{m}" for m in range(l, 0, -1)] + ["c0"] + [f"c{m}" for m in range(1, l + 1)]


def _gaussian_high(l):
    """Gaussian's order of Cartesian functions for g and higher shells (formatted checkpoint files; the Multiwfn manual
    states the same for .mwfn): ZZZZ YZZZ YYZZ YYYZ YYYY XZZZ XYZZ ... XXXX, i.e. the power of x ascending, then of y."""
    return ["x" * nx + "y" * ny + "z" * (l - nx - ny) for nx in range(0, l + 1) for ny in range(0, l - nx + 1)]


DOCUMENTED = {
    # HORTON 2 documentation ("Gaussian basis sets"): Cartesian functions in alphabetical order, pure functions c0, c1, s1, c2, s2, ...
    "HORTON2": {(0, "c"): ["1"], **{(l, "c"): _alphabetical(l) for l in range(1, 25)}, **{(l, "p"): _pure(l) for l in range(2, 25)}},
    # Kenny et al., J. Comput. Chem. 29, 562 (2008), appendix B, made precise by the LibInt wiki: Cartesian functions in
    # lexicographic (alphabetical) order, solid harmonics by increasing m
    "CCA": {(0, "c"): ["1"], **{(l, "c"): _alphabetical(l) for l in range(1, 25)}, **{(l, "p"): _by_m(l) for l in range(2, 25)}},
    # Multiwfn manual, section 2.5: same order as Gaussian for s, p, d (Cartesian and spherical)
    "mwfn": {(0, "c"): ["1"], (1, "c"): ["x", "y", "z"], (2, "c"): _GAUSS_D, (3, "c"): _GAUSS_F, (4, "c"): _gaussian_high(4),
             (5, "c"): _gaussian_high(5), (2, "p"): _pure(2), (3, "p"): _pure(3), (4, "p"): _pure(4)},
    "fchk": {(0, "c"): ["1"], (1, "c"): ["x", "y", "z"], (2, "c"): _GAUSS_D, (3, "c"): _GAUSS_F,
             **{(l, "c"): _gaussian_high(l) for l in range(4, 10)}, **{(l, "p"): _pure(l) for l in range(2, 10)}},
    "molden": {(0, "c"): ["1"], (1, "c"): ["x", "y", "z"], (2, "c"): _GAUSS_D, (3, "c"): _GAUSS_F,
               (4, "c"): _MOLDEN_G, (2, "p"): _pure(2), (3, "p"): _pure(3), (4, "p"): _pure(4)},
    "wfn": {(0, "c"): ["1"], (1, "c"): ["x", "y", "z"], (2, "c"): _GAUSS_D, (3, "c"): _WFN_F,
            (4, "c"): _WFN_G, (5, "c"): _WFN_H},
    "wfx": {(0, "c"): ["1"], (1, "c"): ["x", "y", "z"], (2, "c"): _GAUSS_D, (3, "c"): _WFN_F,
            (4, "c"): _WFN_G, (5, "c"): _WFN_H},
}

# Molekel files (as written by ORCA's orca_2mkl) use the Molden order of functions
DOCUMENTED["molekel"] = dict(DOCUMENTED["molden"])
