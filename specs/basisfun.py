"""Independent semantics of Gaussian basis functions (docs/basis.rst), no iodata import.

A contracted function is ``sum_k D_k N(a_k, P) P(r-A) exp(-a_k |r-A|^2)``.  The value of a
*primitive* at an arbitrary point is treated as a free constant indexed by
``(centre, exponent, kind, l, polynomial)``; primitives with different indices are linearly
independent functions of space, so two functions are equal iff their expansion coefficients
are equal.  An expansion is a dict ``key -> coefficient`` (float or symbolic term).
"""

from __future__ import annotations

import math

from symx import core
from symx.core import Sym


def dfact(n):
    r = 1
    while n > 1:
        r *= n
        n -= 2
    return r


def cart_norm(alpha, powers):
    """N(alpha, nx, ny, nz) of docs/basis.rst."""
    nx, ny, nz = powers
    l = nx + ny + nz
    den = dfact(2 * nx - 1) * dfact(2 * ny - 1) * dfact(2 * nz - 1)
    if isinstance(alpha, Sym):
        return core.sym_sqrt((2 * alpha / math.pi) ** 1.5 * (4 * alpha) ** l / den)
    return math.sqrt((2 * alpha / math.pi) ** 1.5 * (4 * alpha) ** l / den)


def pure_norm(alpha, l):
    den = dfact(2 * l - 1)
    if isinstance(alpha, Sym):
        return core.sym_sqrt((2 * alpha / math.pi) ** 1.5 * (4 * alpha) ** l / den)
    return math.sqrt((2 * alpha / math.pi) ** 1.5 * (4 * alpha) ** l / den)


def powers_of(label):
    s = label.lstrip("-")
    if s == "1":
        return (0, 0, 0)
    return (s.count("x"), s.count("y"), s.count("z"))


def akey(alpha):
    if isinstance(alpha, Sym):
        return ("sym", alpha.t.get_id())
    return ("num", float(alpha))


def add_to(exp, key, coef):
    if key in exp:
        exp[key] = exp[key] + coef
    else:
        exp[key] = coef


def shell_functions(icenter, angmoms, kinds, exponents, coeffs, conventions, normalized_prims=True):
    """Expansions of the basis functions of one shell, in the order the conventions give.

    With ``normalized_prims`` the constants stand for L2-normalised primitives (no N factor);
    otherwise for the bare ``P(r) exp(-a r^2)`` and the documented N is multiplied in.
    """
    out = []
    for c, (l, kind) in enumerate(zip(angmoms, kinds)):
        l = int(l)
        labels = conventions[(l, str(kind))]
        for lab in labels:
            sign = -1.0 if lab.startswith("-") else 1.0
            if kind == "c":
                poly = powers_of(lab)
            else:
                poly = lab.lstrip("-")
            exp = {}
            for k, a in enumerate(exponents):
                d = coeffs[k][c]
                coef = d * sign
                if not normalized_prims:
                    n = cart_norm(a, poly) if kind == "c" else pure_norm(a, l)
                    coef = coef * n
                add_to(exp, (int(icenter), akey(a), str(kind), l, poly), coef)
            out.append(exp)
    return out


def basis_functions(shells, conventions, normalized_prims=True):
    out = []
    for sh in shells:
        out.extend(shell_functions(sh["icenter"], sh["angmoms"], sh["kinds"], sh["exponents"], sh["coeffs"],
                                   conventions, normalized_prims))
    return out


def shells_of(obasis):
    """Plain description (dicts) of an iodata MolecularBasis-like object (duck typed)."""
    out = []
    for sh in obasis.shells:
        out.append(dict(icenter=int(sh.icenter), angmoms=[int(a) for a in sh.angmoms],
                        kinds=[str(k) for k in sh.kinds], exponents=list(sh.exponents),
                        coeffs=[list(row) for row in sh.coeffs]))
    return out


def combine(coefs, funcs):
    """Expansion of sum_mu coefs[mu] * funcs[mu]."""
    out = {}
    for c, f in zip(coefs, funcs):
        for key, v in f.items():
            add_to(out, key, c * v)
    return out


def _is_zero_const(x):
    return not isinstance(x, Sym) and float(x) == 0.0


def exp_equal(ctx, e1, e2, rel=None):
    """Formula: the two expansions denote the same function."""
    parts = []
    for key in sorted(set(e1) | set(e2), key=repr):
        a = e1.get(key, 0.0)
        b = e2.get(key, 0.0)
        if _is_zero_const(a) and _is_zero_const(b):
            continue
        if rel is None:
            r = ctx.eq(a, b)
        else:
            r = ctx.close(a, b, rel) if not _is_zero_const(b) else ctx.eq(a, b)
        if r is True:
            continue
        if r is False:
            return False
        parts.append(r)
    if not parts:
        return True
    return core.And(*parts)


def list_equal(ctx, l1, l2, rel=None):
    if len(l1) != len(l2):
        return False
    parts = []
    for a, b in zip(l1, l2):
        r = exp_equal(ctx, a, b, rel)
        if r is False:
            return False
        if r is not True:
            parts.append(r)
    return core.And(*parts) if parts else True
