"""Independent writers that follow the *published* layouts of the file formats (no iodata import).

Each writer takes a plain model (python numbers or symbolic terms) and produces the file text with
ordinary f-strings; under symbolic execution the numbers become placeholder tokens of the exact
printed width.  Each ``expect_*`` function states, from the same model, what a loaded object must
contain (units applied, one-based indices shifted, records attached to their atoms).

References: CTfile formats (BIOVIA, 2020) - V2000 counts/atom/bond lines; wwPDB format v3.3 -
ATOM/HETATM/CONECT; GROMACS reference manual, "gro file format"
(%5d%-5s%5s%5d%8.3f%8.3f%8.3f%8.4f%8.4f%8.4f, box v1(x) v2(y) v3(z) v1(y) v1(z) v2(x) v2(z) v3(x) v3(y));
Tripos Mol2 File Format (SYBYL 7.1); VASP wiki POSCAR / CHGCAR / LOCPOT; Gaussian cube file
description (P. Bourke / Gaussian utilities); CHARMM crd (normal format); Knowles & Handy FCIDUMP.
"""

from __future__ import annotations

from specs.periodic_ref import NUM2SYM

# CODATA 2018 (2022 agrees to < 1e-9 relative)
BOHR_ANGSTROM = 0.529177210903
ANGSTROM = 1.0 / BOHR_ANGSTROM
NANOMETER = 10.0 * ANGSTROM
ELECTRONVOLT = 1.0 / 27.211386245988
AMU = 1822.888486209
PICOSECOND = 1.0e-12 / 2.4188843265857e-17


# ---------------------------------------------------------------------------------------- SDF
def write_sdf(m):
    """m: title, atoms [(Z, x, y, z) in angstrom], bonds [(i, j, type)] one-based."""
    out = [m["title"], "  independent writer", ""]
    out.append(f"{len(m['atoms']):3d}{len(m['bonds']):3d}  0  0  0  0  0  0  0  0999 V2000")
    for z, x, y, zz in m["atoms"]:
        out.append(f"{x:10.4f}{y:10.4f}{zz:10.4f} {NUM2SYM[z]:<3s} 0  0  0  0  0  0  0  0  0  0  0  0")
    for i, j, t in m["bonds"]:
        out.append(f"{i:3d}{j:3d}{t:3d}  0  0  0  0")
    out += ["M  END", "$$$$"]
    return "\n".join(out) + "\n"


# ---------------------------------------------------------------------------------------- PDB
def write_pdb(m):
    """atoms: (serial, name, resname, chain, resseq, x, y, z, occ, b, Z); conect: [(serial, [serials])]."""
    out = [f"TITLE     {m['title']}"]
    for (serial, name, resn, chain, resseq, x, y, z, occ, b, zn) in m["atoms"]:
        rec = "ATOM  " if not m.get("hetatm") else "HETATM"
        out.append(f"{rec}{serial:5d} {name:<4s} {resn:3s} {chain:1s}{resseq:4d}    "
                   f"{x:8.3f}{y:8.3f}{z:8.3f}{occ:6.2f}{b:6.2f}          {NUM2SYM[zn]:>2s}")
    for serial, others in m.get("conect", []):
        out.append("CONECT" + f"{serial:5d}" + "".join(f"{o:5d}" for o in others))
    out.append("END")
    return "\n".join(out) + "\n"


# ---------------------------------------------------------------------------------------- GRO
def write_gro(m):
    """frames: list of dict(title, time or None, atoms [(resnr, resname, atname, atnr, x,y,z, vx,vy,vz or None)], box)."""
    out = []
    for fr in m["frames"]:
        head = fr["title"]
        if fr.get("time") is not None:
            head += f", t= {fr['time']:.5f}"
        out.append(head)
        out.append(f"{len(fr['atoms']):5d}")
        for (resnr, resname, atname, atnr, x, y, z, vel) in fr["atoms"]:
            line = f"{resnr:5d}{resname:<5s}{atname:>5s}{atnr:5d}{x:8.3f}{y:8.3f}{z:8.3f}"
            if vel is not None:
                line += f"{vel[0]:8.4f}{vel[1]:8.4f}{vel[2]:8.4f}"
            out.append(line)
        b = fr["box"]            # 3x3, rows are the box vectors v1, v2, v3
        if fr.get("triclinic"):
            out.append(f"{b[0][0]:10.5f}{b[1][1]:10.5f}{b[2][2]:10.5f}{b[0][1]:10.5f}{b[0][2]:10.5f}"
                       f"{b[1][0]:10.5f}{b[1][2]:10.5f}{b[2][0]:10.5f}{b[2][1]:10.5f}")
        else:
            out.append(f"{b[0][0]:10.5f}{b[1][1]:10.5f}{b[2][2]:10.5f}")
    return "\n".join(out) + "\n"


# ---------------------------------------------------------------------------------------- MOL2
def write_mol2(m):
    out = ["@<TRIPOS>MOLECULE", m["title"], f"{len(m['atoms'])} {len(m['bonds'])} 1 0 0", "SMALL", "USER_CHARGES", "",
           "@<TRIPOS>ATOM"]
    for k, (name, x, y, z, typ, q) in enumerate(m["atoms"]):
        out.append(f"{k + 1:7d} {name:<8s} {x:9.4f} {y:9.4f} {z:9.4f} {typ:<5s} 1 RES1 {q:9.4f}")
    out.append("@<TRIPOS>BOND")
    for k, (i, j, t) in enumerate(m["bonds"]):
        out.append(f"{k + 1:6d} {i:5d} {j:5d} {t:>4s}")
    return "\n".join(out) + "\n"


# ---------------------------------------------------------------------------------------- XYZ
def write_xyz(m):
    out = []
    for fr in m["frames"]:
        out.append(f"{len(fr['atoms'])}")
        out.append(fr["title"])
        for sym, x, y, z in fr["atoms"]:
            out.append(f"{sym} {x:15.8f} {y:15.8f} {z:15.8f}")
    return "\n".join(out) + "\n"


def write_extxyz(m):
    out = []
    for fr in m["frames"]:
        out.append(f"{len(fr['atoms'])}")
        lat = " ".join(f"{v:.8f}" for row in fr["lattice"] for v in row)
        out.append(f'Lattice="{lat}" Properties=species:S:1:pos:R:3:masses:R:1:force:R:3 energy={fr["energy"]:.8f} '
                   f'charge={fr["charge"]:.4f} pbc="T T F" tag=run7')
        for sym, x, y, z, mass, fx, fy, fz in fr["atoms"]:
            out.append(f"{sym} {x:15.8f} {y:15.8f} {z:15.8f} {mass:12.6f} {fx:14.8f} {fy:14.8f} {fz:14.8f}")
    return "\n".join(out) + "\n"


# ---------------------------------------------------------------------------------------- VASP
def write_vasp(m, grid=None):
    """cell rows in angstrom (times scale), species [(Z, count)], positions in 'Direct' or 'Cartesian'."""
    out = [m["title"], f"   {m['scale']:.14f}"]
    for row in m["cell"]:
        out.append(f" {row[0]:21.16f} {row[1]:21.16f} {row[2]:21.16f}")
    out.append(" ".join(f"{NUM2SYM[z]:>4s}" for z, _ in m["species"]))
    out.append(" ".join(f"{c:6d}" for _, c in m["species"]))
    if m.get("selective"):
        out.append("Selective dynamics")
    out.append("Direct" if m["direct"] else "Cartesian")
    for p in m["positions"]:
        out.append(f" {p[0]:19.16f} {p[1]:19.16f} {p[2]:19.16f}" + ("   T   T   F" if m.get("selective") else ""))
    if grid is not None:
        out.append("")
        n0, n1, n2 = grid["shape"]
        out.append(f" {n0:4d} {n1:4d} {n2:4d}")
        vals = [grid["data"][i0][i1][i2] for i2 in range(n2) for i1 in range(n1) for i0 in range(n0)]  # x fastest
        per = 5
        for k in range(0, len(vals), per):
            out.append(" " + " ".join(f"{v:17.11E}" for v in vals[k:k + per]))
    return "\n".join(out) + "\n"


# ---------------------------------------------------------------------------------------- CUBE
def write_cube(m):
    out = [m["title"], "second comment line"]
    o = m["origin"]
    out.append(f"{len(m['atoms']):5d}{o[0]:12.6f}{o[1]:12.6f}{o[2]:12.6f}")
    for n, ax in zip(m["shape"], m["axes"]):
        out.append(f"{n:5d}{ax[0]:12.6f}{ax[1]:12.6f}{ax[2]:12.6f}")
    for z, q, x, y, zz in m["atoms"]:
        out.append(f"{z:5d}{q:12.6f}{x:12.6f}{y:12.6f}{zz:12.6f}")
    n0, n1, n2 = m["shape"]
    for i0 in range(n0):
        for i1 in range(n1):
            row = [m["data"][i0][i1][i2] for i2 in range(n2)]       # z fastest, new line after each z-run
            for k in range(0, n2, 6):
                out.append("".join(f"{v:13.5E}" for v in row[k:k + 6]))
    return "\n".join(out) + "\n"


# ---------------------------------------------------------------------------------------- CHARMM
def write_crd(m):
    out = ["* " + m["title"], "*"]
    out.append(f"{len(m['atoms']):5d}")
    for k, (resno, resname, typ, x, y, z, segid, resid, w) in enumerate(m["atoms"]):
        out.append(f"{k + 1:5d}{resno:5d} {resname:<4s} {typ:<4s}{x:10.5f}{y:10.5f}{z:10.5f} {segid:<4s} {resid:<4d}{w:10.5f}")
    return "\n".join(out) + "\n"


# ---------------------------------------------------------------------------------------- FCIDUMP
def write_fcidump(m):
    n = m["norb"]
    out = [f" &FCI NORB={n},NELEC={m['nelec']},MS2={m['ms2']},", "  ORBSYM=" + ",".join("1" for _ in range(n)) + ",",
           "  ISYM=1", " &END"]
    for (i, j, k, l), v in m["two"]:        # chemists' notation (ij|kl), one-based, any member of the orbit
        out.append(f"{v:23.16E} {i:3d} {j:3d} {k:3d} {l:3d}")
    for (i, j), v in m["one"]:
        out.append(f"{v:23.16E} {i:3d} {j:3d}   0   0")
    out.append(f"{m['core']:23.16E}   0   0   0   0")
    return "\n".join(out) + "\n"


# ---------------------------------------------------------------------------------------- WFN
# AIMPAC wavefunction file as written by Gaussian (column layout transcribed from Gaussian 09 output and
# the AIMPAC FORMAT statements): primitive types 1..35 = S, X Y Z, XX YY ZZ XY XZ YZ, XXX YYY ZZZ XXY XXZ
# YYZ XYY XZZ YZZ XYZ, ...; MO coefficients refer to UN-normalised Cartesian primitives.
WFN_TYPES = {1: (0, 0, 0), 2: (1, 0, 0), 3: (0, 1, 0), 4: (0, 0, 1), 5: (2, 0, 0), 6: (0, 2, 0), 7: (0, 0, 2), 8: (1, 1, 0),
             9: (1, 0, 1), 10: (0, 1, 1), 11: (3, 0, 0), 12: (0, 3, 0), 13: (0, 0, 3), 14: (2, 1, 0), 15: (2, 0, 1),
             16: (0, 2, 1), 17: (1, 2, 0), 18: (1, 0, 2), 19: (0, 1, 2), 20: (1, 1, 1)}


def fortran_d(v, width, digits):
    """Fortran Dw.d: 0.dddddddD+ee"""
    if v == 0:
        s = "0." + "0" * digits + "D+00"
    else:
        import math
        e = int(math.floor(math.log10(abs(v)))) + 1
        m = abs(v) / 10 ** e
        ms = f"{m:.{digits}f}"
        if ms.startswith("1."):          # rounding carried over
            e += 1
            ms = f"{abs(v) / 10 ** e:.{digits}f}"
        s = ("-" if v < 0 else "") + ms + f"D{'+' if e >= 0 else '-'}{abs(e):02d}"
    return s.rjust(width)


def write_wfn(m):
    """m: title, atoms [(Z, x, y, z) bohr], prims [(centre(1-based), type, exponent)], mos [(occ, energy, [coeffs])],
    energy, virial."""
    nprim = len(m["prims"])
    out = [" " + m["title"]]
    out.append(f"GAUSSIAN{len(m['mos']):15d} MOL ORBITALS{nprim:7d} PRIMITIVES{len(m['atoms']):9d} NUCLEI")
    for i, (z, x, y, zz) in enumerate(m["atoms"]):
        out.append(f"  {NUM2SYM[z]:<3s}{i + 1:3d}    (CENTRE{i + 1:3d}) {x:12.8f}{y:12.8f}{zz:12.8f}  CHARGE ={float(z):5.1f}")
    for label, vals, per, fmt in (("CENTRE ASSIGNMENTS  ", [p[0] for p in m["prims"]], 20, "{:3d}"),
                                  ("TYPE ASSIGNMENTS    ", [p[1] for p in m["prims"]], 20, "{:3d}")):
        for k in range(0, nprim, per):
            out.append(label + "".join(fmt.format(v) for v in vals[k:k + per]))
    exps = [p[2] for p in m["prims"]]
    for k in range(0, nprim, 5):
        out.append("EXPONENTS " + "".join(fortran_d(v, 14, 7) for v in exps[k:k + 5]))
    for i, (occ, en, coeffs) in enumerate(m["mos"]):
        out.append(f"MO{i + 1:5d}     MO 0.0        OCC NO ={occ:13.7f}  ORB. ENERGY ={en:12.6f}")
        for k in range(0, nprim, 5):
            out.append("".join(f"{c:16.8E}" for c in coeffs[k:k + 5]))
    out.append("END DATA")
    out.append(f" TOTAL ENERGY =  {m['energy']:20.12f} THE VIRIAL(-V/T)={m['virial']:13.8f}")
    return "\n".join(out) + "\n"


# ---------------------------------------------------------------------------------------- MOLDEN
def write_molden(m):
    """Minimal Molden file (Molden format description, sections [Atoms] <unit>, [GTO], [MO]).

    m: unit header text ('AU', '(AU)', 'Angs', '(Angs)'), atoms [(Z, x, y, z)], one s primitive per atom."""
    out = ["[Molden Format]", f"[Atoms] {m['unit']}"]
    for i, (z, x, y, zz) in enumerate(m["atoms"]):
        out.append(f"{NUM2SYM[z]:<3s} {i + 1:3d} {z:3d} {x:18.10f} {y:18.10f} {zz:18.10f}")
    out.append("[GTO]")
    for i in range(len(m["atoms"])):
        out += [f"{i + 1:3d} 0", " s    1 1.00", "      1.2000000000      1.0000000000", ""]
    out.append("[MO]")
    out += [" Sym= A", " Ene= -0.5", " Spin= Alpha", " Occup= 2.0"]
    for i in range(len(m["atoms"])):
        out.append(f"{i + 1:4d} {0.7 if i == 0 else 0.1:18.10f}")
    return "\n".join(out) + "\n"
