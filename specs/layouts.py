"""Independent writers that follow the *published* layouts of the file formats (no iodata import).

Each writer takes a plain model (python numbers or symbolic terms) and produces the file text with
ordinary f-strings; under symbolic execution the numbers become placeholder tokens of the exact
printed width.  Each ``expect_*`` function states, from the same model, what a loaded object must
contain (units applied, one-based indices shifted, records attached to their atoms).

References: CTfile formats (BIOVIA, 2020) - V2000 counts/atom/bond lines; wwPDB format v3.3 -
ATOM/HETATM/CONECT; GROMACS reference manual, "gro file format"
(%5d%-5s%5s%5d%8.3f%8.3f%8.3f%8.4f%8.4f%8.4f, box v1(x) v2(y) v3(z) v1(y) v1(z) v2(x) v2(z) v3(x) v3(y));
Tripos Mol2 File Format (SYBYL 7.1); VASP wiki POSCAR / CHGCAR / LOCPOT; Gaussian cube file
description (P. Bourke / Gaussian utilities); CHARMM crd (normal format); Knowles & Handy FCIDUMP.
"""

from __future__ import annotations

from specs.periodic_ref import NUM2SYM

# CODATA 2018 (2022 agrees to < 1e-9 relative)
BOHR_ANGSTROM = 0.529177210903
ANGSTROM = 1.0 / BOHR_ANGSTROM
NANOMETER = 10.0 * ANGSTROM
ELECTRONVOLT = 1.0 / 27.211386245988
AMU = 1822.888486209
PICOSECOND = 1.0e-12 / 2.4188843265857e-17


# ---------------------------------------------------------------------------------------- SDF
def write_sdf(m):
    """m: title, atoms [(Z, x, y, z) in angstrom], bonds [(i, j, type)] one-based."""
    out = [m["title"], "  independent writer", ""]
    out.append(f"{len(m['atoms']):3d}{len(m['bonds']):3d}  0  0  0  0  0  0  0  0999 V2000")
    for z, x, y, zz in m["atoms"]:
        out.append(f"{x:10.4f}{y:10.4f}{zz:10.4f} {NUM2SYM[z]:<3s} 0  0  0  0  0  0  0  0  0  0  0  0")
    for i, j, t in m["bonds"]:
        out.append(f"{i:3d}{j:3d}{t:3d}  0  0  0  0")
    out += ["M  END", "$$$$"]
    return "\n".join(out) + "\n"


# ---------------------------------------------------------------------------------------- PDB
def write_pdb(m):
    """atoms: (serial, name, resname, chain, resseq, x, y, z, occ, b, Z); conect: [(serial, [serials])]."""
    out = [f"TITLE     {m['title']}"]
    for (serial, name, resn, chain, resseq, x, y, z, occ, b, zn) in m["atoms"]:
        rec = "ATOM  " if not m.get("hetatm") else "HETATM"
        out.append(f"{rec}{serial:5d} {name:<4s} {resn:3s} {chain:1s}{resseq:4d}    "
                   f"{x:8.3f}{y:8.3f}{z:8.3f}{occ:6.2f}{b:6.2f}          {'' if m.get('no_element') else NUM2SYM[zn]:>2s}")
    for serial, others in m.get("conect", []):
        out.append("CONECT" + f"{serial:5d}" + "".join(f"{o:5d}" for o in others))
    out.append("END")
    return "\n".join(out) + "\n"


# ---------------------------------------------------------------------------------------- GRO
def write_gro(m):
    """frames: list of dict(title, time or None, atoms [(resnr, resname, atname, atnr, x,y,z, vx,vy,vz or None)], box)."""
    out = []
    for fr in m["frames"]:
        head = fr["title"]
        if fr.get("time") is not None:
            head += f", t= {fr['time']:.5f}"
        out.append(head)
        out.append(f"{len(fr['atoms']):5d}")
        for (resnr, resname, atname, atnr, x, y, z, vel) in fr["atoms"]:
            line = f"{resnr:5d}{resname:<5s}{atname:>5s}{atnr:5d}{x:8.3f}{y:8.3f}{z:8.3f}"
            if vel is not None:
                line += f"{vel[0]:8.4f}{vel[1]:8.4f}{vel[2]:8.4f}"
            out.append(line)
        b = fr["box"]            # 3x3, rows are the box vectors v1, v2, v3
        if fr.get("triclinic"):
            out.append(f"{b[0][0]:10.5f}{b[1][1]:10.5f}{b[2][2]:10.5f}{b[0][1]:10.5f}{b[0][2]:10.5f}"
                       f"{b[1][0]:10.5f}{b[1][2]:10.5f}{b[2][0]:10.5f}{b[2][1]:10.5f}")
        else:
            out.append(f"{b[0][0]:10.5f}{b[1][1]:10.5f}{b[2][2]:10.5f}")
    return "\n".join(out) + "\n"


# ---------------------------------------------------------------------------------------- MOL2
def write_mol2(m):
    out = ["@<TRIPOS>MOLECULE", m["title"], f"{len(m['atoms'])} {len(m['bonds'])} 1 0 0", "SMALL", "USER_CHARGES", "",
           "@<TRIPOS>ATOM"]
    for k, (name, x, y, z, typ, q) in enumerate(m["atoms"]):
        out.append(f"{k + 1:7d} {name:<8s} {x:9.4f} {y:9.4f} {z:9.4f} {typ:<5s} 1 RES1 {q:9.4f}")
    out.append("@<TRIPOS>BOND")
    for k, (i, j, t) in enumerate(m["bonds"]):
        out.append(f"{k + 1:6d} {i:5d} {j:5d} {t:>4s}")
    return "\n".join(out) + "\n"


# ---------------------------------------------------------------------------------------- XYZ
def write_xyz(m):
    out = []
    for fr in m["frames"]:
        out.append(f"{len(fr['atoms'])}")
        out.append(fr["title"])
        for sym, x, y, z in fr["atoms"]:
            out.append(f"{sym} {x:15.8f} {y:15.8f} {z:15.8f}")
    return "\n".join(out) + "\n"


def write_extxyz(m):
    """frames: lattice, energy, charge, atoms (sym, x, y, z, mass, fx, fy, fz[, q, tag]); with m['custom'] two user-defined
    per-atom columns (q: real, tag: integer) follow the predefined ones."""
    out = []
    custom = m.get("custom", False)
    header = None
    for fr in m["frames"]:
        out.append(f"{len(fr['atoms'])}")
        if header is None or not custom:
            lat = " ".join(f"{v:.8f}" for row in fr["lattice"] for v in row)
            props = "species:S:1:pos:R:3:masses:R:1:force:R:3" + (":q:R:1:site:I:1" if custom else "")
            header = (f'Lattice="{lat}" Properties={props} energy={fr["energy"]:.8f} '
                      f'charge={fr["charge"]:.4f} pbc="T T F" tag=run7')
        # with the user-defined columns all frames carry the very same comment line (same cell, energy and charge)
        out.append(header)
        for a in fr["atoms"]:
            sym, x, y, z, mass, fx, fy, fz = a[:8]
            line = f"{sym} {x:15.8f} {y:15.8f} {z:15.8f} {mass:12.6f} {fx:14.8f} {fy:14.8f} {fz:14.8f}"
            if custom:
                line += f" {a[8]:12.6f} {a[9]:6d}"
            out.append(line)
    return "\n".join(out) + "\n"


# ---------------------------------------------------------------------------------------- VASP
def write_vasp(m, grid=None):
    """cell rows in angstrom (times scale), species [(Z, count)], positions in 'Direct' or 'Cartesian'."""
    out = [m["title"], f"   {m['scale']:.14f}"]
    for row in m["cell"]:
        out.append(f" {row[0]:21.16f} {row[1]:21.16f} {row[2]:21.16f}")
    out.append(" ".join(f"{NUM2SYM[z]:>4s}" for z, _ in m["species"]))
    out.append(" ".join(f"{c:6d}" for _, c in m["species"]))
    if m.get("selective"):
        out.append("Selective dynamics")
    out.append("Direct" if m["direct"] else "Cartesian")
    for p in m["positions"]:
        out.append(f" {p[0]:19.16f} {p[1]:19.16f} {p[2]:19.16f}" + ("   T   T   F" if m.get("selective") else ""))
    if grid is not None:
        out.append("")
        n0, n1, n2 = grid["shape"]
        out.append(f" {n0:4d} {n1:4d} {n2:4d}")
        vals = [grid["data"][i0][i1][i2] for i2 in range(n2) for i1 in range(n1) for i0 in range(n0)]  # x fastest
        per = 5
        for k in range(0, len(vals), per):
            out.append(" " + " ".join(f"{v:17.11E}" for v in vals[k:k + per]))
    return "\n".join(out) + "\n"


# ---------------------------------------------------------------------------------------- CUBE
def write_cube(m):
    out = [m["title"], "second comment line"]
    o = m["origin"]
    out.append(f"{len(m['atoms']):5d}{o[0]:12.6f}{o[1]:12.6f}{o[2]:12.6f}")
    for n, ax in zip(m["shape"], m["axes"]):
        out.append(f"{n:5d}{ax[0]:12.6f}{ax[1]:12.6f}{ax[2]:12.6f}")
    for z, q, x, y, zz in m["atoms"]:
        out.append(f"{z:5d}{q:12.6f}{x:12.6f}{y:12.6f}{zz:12.6f}")
    n0, n1, n2 = m["shape"]
    for i0 in range(n0):
        for i1 in range(n1):
            row = [m["data"][i0][i1][i2] for i2 in range(n2)]       # z fastest, new line after each z-run
            for k in range(0, n2, 6):
                out.append("".join(f"{v:13.5E}" for v in row[k:k + 6]))
    return "\n".join(out) + "\n"


# ---------------------------------------------------------------------------------------- CHARMM
def write_crd(m):
    out = ["* " + m["title"], "*"]
    out.append(f"{len(m['atoms']):5d}")
    for k, (resno, resname, typ, x, y, z, segid, resid, w) in enumerate(m["atoms"]):
        out.append(f"{k + 1:5d}{resno:5d} {resname:<4s} {typ:<4s}{x:10.5f}{y:10.5f}{z:10.5f} {segid:<4s} {resid:<4d}{w:10.5f}")
    return "\n".join(out) + "\n"


# ---------------------------------------------------------------------------------------- FCIDUMP
def write_fcidump(m):
    n = m["norb"]
    out = [f" &FCI NORB={n},NELEC={m['nelec']},MS2={m['ms2']},", "  ORBSYM=" + ",".join("1" for _ in range(n)) + ",",
           "  ISYM=1", " &END"]
    for (i, j, k, l), v in m["two"]:        # chemists' notation (ij|kl), one-based, any member of the orbit
        out.append(f"{v:23.16E} {i:3d} {j:3d} {k:3d} {l:3d}")
    for (i, j), v in m["one"]:
        out.append(f"{v:23.16E} {i:3d} {j:3d}   0   0")
    out.append(f"{m['core']:23.16E}   0   0   0   0")
    return "\n".join(out) + "\n"


# ---------------------------------------------------------------------------------------- WFN
# AIMPAC wavefunction file as written by Gaussian (column layout transcribed from Gaussian 09 output and
# the AIMPAC FORMAT statements): primitive types 1..35 = S, X Y Z, XX YY ZZ XY XZ YZ, XXX YYY ZZZ XXY XXZ
# YYZ XYY XZZ YZZ XYZ, ...; MO coefficients refer to UN-normalised Cartesian primitives.
WFN_TYPES = {1: (0, 0, 0), 2: (1, 0, 0), 3: (0, 1, 0), 4: (0, 0, 1), 5: (2, 0, 0), 6: (0, 2, 0), 7: (0, 0, 2), 8: (1, 1, 0),
             9: (1, 0, 1), 10: (0, 1, 1), 11: (3, 0, 0), 12: (0, 3, 0), 13: (0, 0, 3), 14: (2, 1, 0), 15: (2, 0, 1),
             16: (0, 2, 1), 17: (1, 2, 0), 18: (1, 0, 2), 19: (0, 1, 2), 20: (1, 1, 1)}


def fortran_d(v, width, digits):
    """Fortran Dw.d: 0.dddddddD+ee"""
    if v == 0:
        s = "0." + "0" * digits + "D+00"
    else:
        import math
        e = int(math.floor(math.log10(abs(v)))) + 1
        m = abs(v) / 10 ** e
        ms = f"{m:.{digits}f}"
        if ms.startswith("1."):          # rounding carried over
            e += 1
            ms = f"{abs(v) / 10 ** e:.{digits}f}"
        s = ("-" if v < 0 else "") + ms + f"D{'+' if e >= 0 else '-'}{abs(e):02d}"
    return s.rjust(width)


def write_wfn(m):
    """m: title, atoms [(Z, x, y, z) bohr], prims [(centre(1-based), type, exponent)], mos [(occ, energy, [coeffs])],
    energy, virial."""
    nprim = len(m["prims"])
    out = [" " + m["title"]]
    out.append(f"GAUSSIAN{len(m['mos']):15d} MOL ORBITALS{nprim:7d} PRIMITIVES{len(m['atoms']):9d} NUCLEI")
    for i, (z, x, y, zz) in enumerate(m["atoms"]):
        out.append(f"  {NUM2SYM[z]:<3s}{i + 1:3d}    (CENTRE{i + 1:3d}) {x:12.8f}{y:12.8f}{zz:12.8f}  CHARGE ={float(z):5.1f}")
    for label, vals, per, fmt in (("CENTRE ASSIGNMENTS  ", [p[0] for p in m["prims"]], 20, "{:3d}"),
                                  ("TYPE ASSIGNMENTS    ", [p[1] for p in m["prims"]], 20, "{:3d}")):
        for k in range(0, nprim, per):
            out.append(label + "".join(fmt.format(v) for v in vals[k:k + per]))
    exps = [p[2] for p in m["prims"]]
    for k in range(0, nprim, 5):
        out.append("EXPONENTS " + "".join(fortran_d(v, 14, 7) for v in exps[k:k + 5]))
    for i, (occ, en, coeffs) in enumerate(m["mos"]):
        out.append(f"MO{i + 1:5d}     MO 0.0        OCC NO ={occ:13.7f}  ORB. ENERGY ={en:12.6f}")
        for k in range(0, nprim, 5):
            out.append("".join(f"{c:16.8E}" for c in coeffs[k:k + 5]))
    out.append("END DATA")
    out.append(f" TOTAL ENERGY =  {m['energy']:20.12f} THE VIRIAL(-V/T)={m['virial']:13.8f}")
    return "\n".join(out) + "\n"


# ---------------------------------------------------------------------------------------- MOLDEN
def write_molden(m):
    """Minimal Molden file (Molden format description, sections [Atoms] <unit>, [GTO], [MO]).

    m: unit header text ('AU', '(AU)', 'Angs', '(Angs)'), atoms [(Z, x, y, z)], one s primitive per atom."""
    out = ["[Molden Format]", f"[Atoms] {m['unit']}"]
    for i, (z, x, y, zz) in enumerate(m["atoms"]):
        out.append(f"{NUM2SYM[z]:<3s} {i + 1:3d} {z:3d} {x:18.10f} {y:18.10f} {zz:18.10f}")
    out.append("[GTO]")
    for i in range(len(m["atoms"])):
        out += [f"{i + 1:3d} 0", " s    1 1.00", "      1.2000000000      1.0000000000", ""]
    out.append("[MO]")
    out += [" Sym= A", " Ene= -0.5", " Spin= Alpha", " Occup= 2.0"]
    for i in range(len(m["atoms"])):
        out.append(f"{i + 1:4d} {0.7 if i == 0 else 0.1:18.10f}")
    return "\n".join(out) + "\n"


# ---------------------------------------------------------------------------------------- FCHK
# Gaussian formatted checkpoint file (Gaussian 16 user's reference, "Interfacing to Gaussian", formchk):
#   line 1: title (up to 72 characters); line 2: type (A10), method (A30), basis (A30)
#   scalar record:  label (A40), 3X, type (A1: I or R), 5X, value (I12 or E22.15)
#   array record:   label (A40), 3X, type (A1), 3X, 'N=', count (I12); then the data, 6 integers (6I12) or
#                   5 reals (5E16.8) per line
# Shell types: 0=s, 1=p, -1=sp, 2=6d, -2=5d, 3=10f, -3=7f, ...; lower triangles are stored row by row.
def _fchk_scalar(label, v):
    if isinstance(v, int):
        return f"{label:<40s}   I     {v:12d}"
    return f"{label:<40s}   R     {v:22.15E}"


def _fchk_array(label, vals, integer=False):
    out = [f"{label:<40s}   {'I' if integer else 'R'}   N={len(vals):12d}"]
    per = 6 if integer else 5
    for k in range(0, len(vals), per):
        chunk = vals[k:k + per]
        out.append("".join(f"{v:12d}" for v in chunk) if integer else "".join(f"{v:16.8E}" for v in chunk))
    return out


def write_fchk(m):
    """m: title, command, lot, basis, atoms [(Z, core charge, x, y, z, weight)], shells [(type, atom(1-based), exps, coeffs,
    sp_coeffs or None)], nalpha, nbeta, alpha/beta (energies, coefficients[orbital][basis]) and optional property fields."""
    out = [m["title"], f"{m['command']:<10s}{m['lot']:<30s}{m['basis']:>30s}"]
    atoms = m["atoms"]
    out.append(_fchk_scalar("Number of atoms", len(atoms)))
    out.append(_fchk_scalar("Charge", m.get("charge", 0)))
    out.append(_fchk_scalar("Multiplicity", m["nalpha"] - m["nbeta"] + 1))
    out.append(_fchk_scalar("Number of electrons", m["nalpha"] + m["nbeta"]))
    out.append(_fchk_scalar("Number of alpha electrons", m["nalpha"]))
    out.append(_fchk_scalar("Number of beta electrons", m["nbeta"]))
    out.append(_fchk_scalar("Number of basis functions", m["nbasis"]))
    out += _fchk_array("Atomic numbers", [a[0] for a in atoms], integer=True)
    out += _fchk_array("Nuclear charges", [a[1] for a in atoms])
    out += _fchk_array("Current cartesian coordinates", [c for a in atoms for c in a[2:5]])
    if m.get("weights", True):
        out += _fchk_array("Real atomic weights", [a[5] for a in atoms])
    if "frozen" in m:
        out += _fchk_array("MicOpt", m["frozen"], integer=True)
    shells = m["shells"]
    out += _fchk_array("Shell types", [s[0] for s in shells], integer=True)
    out += _fchk_array("Number of primitives per shell", [len(s[2]) for s in shells], integer=True)
    out += _fchk_array("Shell to atom map", [s[1] for s in shells], integer=True)
    out += _fchk_array("Primitive exponents", [e for s in shells for e in s[2]])
    out += _fchk_array("Contraction coefficients", [c for s in shells for c in s[3]])
    if any(s[0] == -1 for s in shells):
        out += _fchk_array("P(S=P) Contraction coefficients", [c for s in shells for c in (s[4] if s[4] is not None else [0.0] * len(s[2]))])
    if "energy" in m:
        out.append(_fchk_scalar("SCF Energy", m["energy"]))
        out.append(_fchk_scalar("Total Energy", m["energy"]))
    ea, ca = m["alpha"]
    out += _fchk_array("Alpha Orbital Energies", list(ea))
    if "beta" in m:
        out += _fchk_array("Beta Orbital Energies", list(m["beta"][0]))
    out += _fchk_array("Alpha MO coefficients", [c for orb in ca for c in orb])
    if "beta" in m:
        out += _fchk_array("Beta MO coefficients", [c for orb in m["beta"][1] for c in orb])
    for label in ("Total SCF Density", "Spin SCF Density", "Total MP2 Density", "Spin MP2 Density", "Total CC Density",
                  "Mulliken Charges", "ESP Charges", "NPA Charges", "MBS Charges", "Type 6 Charges", "Type 7 Charges",
                  "Cartesian Gradient", "Cartesian Force Constants", "Dipole Moment", "Quadrupole Moment", "Polarizability"):
        if label in m.get("fields", {}):
            out += _fchk_array(label, list(m["fields"][label]))
    return "\n".join(out) + "\n"


def write_fchk_trajectory(m):
    """Optimisation / IRC trajectory: kind 'Opt' | 'IRC', atoms [(Z, core charge)], points: list of steps
    [(energy, second value, coords (natom x 3), gradient (natom x 3))]."""
    atoms = m["atoms"]
    word = {"Opt": "Optimization", "IRC": "IRC"}[m["kind"]]
    prefix = {"Opt": "Opt point", "IRC": "IRC point"}[m["kind"]]
    out = [m["title"], f"{'FOpt' if m['kind'] == 'Opt' else 'Freq':<10s}{'RHF':<30s}{'STO-3G':>30s}"]
    out.append(_fchk_scalar("Number of atoms", len(atoms)))
    out += _fchk_array("Atomic numbers", [a[0] for a in atoms], integer=True)
    out += _fchk_array("Nuclear charges", [a[1] for a in atoms])
    first = m["points"][0][0][2]
    out += _fchk_array("Current cartesian coordinates", [c for row in first for c in row])
    out += _fchk_array(f"{word} Number of geometries", [len(p) for p in m["points"]], integer=True)
    for ip, steps in enumerate(m["points"]):
        tag = f"{prefix} {ip + 1:7d}"
        out += _fchk_array(f"{tag} Results for each geome", [v for st in steps for v in (st[0], st[1])])
        out += _fchk_array(f"{tag} Geometries", [c for st in steps for row in st[2] for c in row])
        out += _fchk_array(f"{tag} Gradient at each geome", [c for st in steps for row in st[3] for c in row])
    return "\n".join(out) + "\n"


# ---------------------------------------------------------------------------------------- Gaussian input
# Gaussian 16 user's reference, "Gaussian input file": Link 0 commands (%...), route section (# lines) terminated by a
# blank line, title section terminated by a blank line, charge and multiplicity, one line per atom (element, x, y, z in
# angstrom, free format), terminated by a blank line.
def write_gaussian_input(m):
    out = list(m.get("link0", []))
    out += m["route"]
    out.append("")
    out += m["title"]
    out.append("")
    out.append(f"{m['charge']} {m['mult']}")
    for z, x, y, zz in m["atoms"]:
        out.append(f" {NUM2SYM[z]:<2s} {x:14.8f} {y:14.8f} {zz:14.8f}")
    out.append("")
    return "\n".join(out) + "\n"


# ---------------------------------------------------------------------------------------- WFX
# AIMAll "Format Specification for AIM Extended Wavefunction Files (.wfx)": sections <Tag> ... </Tag>, free-format
# numbers; required sections as listed there; per-MO coefficient blocks preceded by <MO Number> n </MO Number>;
# primitive types numbered as in WFN files (1 = s, 2..4 = p, 5..10 = d, ...); gradient lines carry the nuclear name.
def write_wfx(m):
    """m: title, atoms [(name, Z, charge, x, y, z)], prims [(centre(1-based), type, exponent)], mos [(occ, energy, spin, [coeffs])],
    energy, virial, net_charge, nelec, nalpha, nbeta, optional mult, model, gradient [(name, gx, gy, gz)], extras."""
    def sec(tag, lines):
        return [f"<{tag}>"] + list(lines) + [f"</{tag}>"]
    nprim = len(m["prims"])
    out = sec("Title", [" " + m["title"]])
    out += sec("Keywords", [" GTO"])
    out += sec("Number of Nuclei", [f" {len(m['atoms'])}"])
    out += sec("Number of Primitives", [f" {nprim}"])
    out += sec("Number of Occupied Molecular Orbitals", [f" {len(m['mos'])}"])
    out += sec("Number of Perturbations", [" 0"])
    out += sec("Nuclear Names", [f" {a[0]}" for a in m["atoms"]])
    out += sec("Atomic Numbers", [f" {a[1]}" for a in m["atoms"]])
    out += sec("Nuclear Charges", [f" {a[2]:21.12E}" for a in m["atoms"]])
    out += sec("Nuclear Cartesian Coordinates", [f" {a[3]:21.12E} {a[4]:21.12E} {a[5]:21.12E}" for a in m["atoms"]])
    out += sec("Net Charge", [f" {m['net_charge']:21.12E}"])
    out += sec("Number of Electrons", [f" {m['nelec']}"])
    out += sec("Number of Alpha Electrons", [f" {m['nalpha']}"])
    out += sec("Number of Beta Electrons", [f" {m['nbeta']}"])
    if "mult" in m:
        out += sec("Electronic Spin Multiplicity", [f" {m['mult']}"])
    if "ncore" in m:
        out += sec("Number of Core Electrons", [f" {m['ncore']}"])
    if "model" in m:
        out += sec("Model", [" " + m["model"]])
    def ints(vals, per=5):
        return [" " + " ".join(f"{v:d}" for v in vals[k:k + per]) for k in range(0, len(vals), per)]
    def reals(vals, per=5):
        return [" " + " ".join(f"{v:21.12E}" for v in vals[k:k + per]) for k in range(0, len(vals), per)]
    out += sec("Primitive Centers", ints([p[0] for p in m["prims"]]))
    out += sec("Primitive Types", ints([p[1] for p in m["prims"]]))
    out += sec("Primitive Exponents", reals([p[2] for p in m["prims"]]))
    out += sec("Molecular Orbital Occupation Numbers", [f" {mo[0]:21.12E}" for mo in m["mos"]])
    out += sec("Molecular Orbital Energies", [f" {mo[1]:21.12E}" for mo in m["mos"]])
    out += sec("Molecular Orbital Spin Types", [f" {mo[2]}" for mo in m["mos"]])
    body = []
    for i, mo in enumerate(m["mos"]):
        body += ["<MO Number>", f" {i + 1}", "</MO Number>"] + reals(mo[3])
    out += sec("Molecular Orbital Primitive Coefficients", body)
    out += sec("Energy = T + Vne + Vee + Vnn", [f" {m['energy']:21.12E}"])
    out += sec("Virial Ratio (-V/T)", [f" {m['virial']:21.12E}"])
    if "gradient" in m:
        out += sec("Nuclear Cartesian Energy Gradients", [f" {g[0]} {g[1]:21.12E} {g[2]:21.12E} {g[3]:21.12E}" for g in m["gradient"]])
    if "nuc_virial" in m:
        out += sec("Nuclear Virial of Energy-Gradient-Based Forces on Nuclei, W", [f" {m['nuc_virial']:21.12E}"])
    if "full_virial" in m:
        out += sec("Full Virial Ratio, -(V - W)/T", [f" {m['full_virial']:21.12E}"])
    return "\n".join(out) + "\n"


# ---------------------------------------------------------------------------------------- Molden (full) / Molekel
# Molden format description (https://www.theochem.ru.nl/molden/molden_format.html): [Molden Format], [Title],
# [Atoms] (Angs|AU): name number atomic_number x y z; [GTO]: per atom "atom_sequence_number 0", then shells
# "label nprim 1.00" followed by "exponent coefficient" lines, atoms separated by an empty line; [5D] / [5D7F] / [5D10F] /
# [7F] / [9G] switch to spherical functions; [MO]: Sym= / Ene= / Spin= / Occup= followed by "index coefficient" lines.
# Contraction coefficients refer to normalised primitives; functions within a shell in the documented order.
def write_molden_full(m):
    """m: title, unit ('AU'|'Angs'), atoms [(Z, x, y, z)] in that unit, shells [(atom(0-based), 's'|'p'|'d'|..., [(exp, coef)])],
    pure ('' | '[5D]' ...), pure_first (bool), mos [(sym, energy, spin, occ, [coefs])]."""
    out = ["[Molden Format]", "[Title]", " " + m["title"], f"[Atoms] {m['unit']}"]
    for i, (z, x, y, zz) in enumerate(m["atoms"]):
        out.append(f"{NUM2SYM[z]:<3s}{i + 1:5d}{z:4d} {x:18.10f} {y:18.10f} {zz:18.10f}")
    if m.get("pure") and m.get("pure_first"):
        out.append(m["pure"])
    out.append("[GTO]")
    for i in range(len(m["atoms"])):
        out.append(f"{i + 1:4d} 0")
        for (ic, lab, prims) in m["shells"]:
            if ic != i:
                continue
            out.append(f" {lab} {len(prims):4d} 1.00")
            for e, c in prims:
                out.append(f" {e:18.10E} {c:18.10E}")
        out.append("")
    if m.get("pure") and not m.get("pure_first"):
        out.append(m["pure"])
    out.append("[MO]")
    for sym, en, spin, occ, coefs in m["mos"]:
        out += [f" Sym= {sym}", f" Ene= {en:18.10E}", f" Spin= {spin}", f" Occup= {occ:12.6f}"]
        for k, c in enumerate(coefs):
            out.append(f"{k + 1:5d} {c:18.10E}")
    return "\n".join(out) + "\n"


# Molekel MKL file (Molekel 4.3 documentation, as written by ORCA's orca_2mkl): $MKL; $CHAR_MULT (charge multiplicity);
# $COORD (atomic number, x, y, z in angstrom); optional $CHARGES; $BASIS (per atom: "nfunc label 1.00" then
# "exponent coefficient" lines, atoms separated by "$$"); $COEFF_ALPHA in blocks of up to five orbitals (symmetry labels,
# energies, one line per basis function); $OCC_ALPHA; the same with _BETA for unrestricted orbitals.
def write_mkl(m):
    """m: charge, mult, atoms [(Z, x, y, z) angstrom], charges or None, shells [(atom, label, nfunc, [(exp, coef)])],
    alpha (energies, [coefs per orbital], occs), beta or None."""
    out = ["$MKL", "#", "# MKL format file from an independent writer", "#", "$CHAR_MULT", f" {m['charge']} {m['mult']}", "$END", "",
           "$COORD"]
    for z, x, y, zz in m["atoms"]:
        out.append(f"{z:4d} {x:14.8f} {y:14.8f} {zz:14.8f}")
    out += ["$END", ""]
    if m.get("charges") is not None:
        out.append("$CHARGES")
        out += [f" {q:12.6f}" for q in m["charges"]]
        out += ["$END", ""]
    out.append("$BASIS")
    for i in range(len(m["atoms"])):
        for (ic, lab, nf, prims) in m["shells"]:
            if ic != i:
                continue
            out.append(f" {nf} {lab} 1.00")
            for e, c in prims:
                out.append(f" {e:18.10f} {c:16.10f}")
        if i + 1 < len(m["atoms"]):
            out.append("$$")
    out += ["", "$END", ""]
    for tag, blk in (("ALPHA", m["alpha"]), ("BETA", m.get("beta"))):
        if blk is None:
            continue
        energies, coefs, occs = blk
        out.append(f"$COEFF_{tag}")
        nb = len(coefs[0])
        for j in range(0, len(energies), 5):
            cols = list(range(j, min(j + 5, len(energies))))
            out.append(" " + " ".join("a1g" for _ in cols))
            out.append(" " + " ".join(f"{energies[k]:14.8f}" for k in cols))
            for b in range(nb):
                out.append(" " + " ".join(f"{coefs[k][b]:14.8f}" for k in cols))
        out += ["$END", "", f"$OCC_{tag}"]
        for j in range(0, len(occs), 5):
            out.append(" " + " ".join(f"{o:10.7f}" for o in occs[j:j + 5]))
        out += ["$END", ""]
    return "\n".join(out) + "\n"


# ---------------------------------------------------------------------------------------- Gaussian log (integral dumps)
# Output of Gaussian with IOp(3/33=5) / scf(conventional) IOp(3/33=6) extralinks=l316: "NBasis =" line; each one-electron
# matrix as a lower triangle in blocks of five columns (header line with the column numbers, then "row values..." with
# Fortran D exponents); two-electron integrals one per line in chemists' notation (ij|kl):
# (' I=',I3,' J=',I3,' K=',I3,' L=',I3,' Int=',D20.12).
def write_gaussian_log(m):
    nb = m["nbasis"]
    out = [" Entering Gaussian System", f"    NBasis ={nb:4d}  MinDer = 0  MaxDer = 0"]
    for header, key in ((" *** Overlap *** ", "overlap"), (" *** Kinetic Energy *** ", "kinetic"),
                        (" ***** Potential Energy ***** ", "potential")):
        if key not in m:
            continue
        mat = m[key]                    # mat[i][j] for j <= i
        out.append(header)
        for c0 in range(0, nb, 5):
            cols = list(range(c0, min(c0 + 5, nb)))
            out.append("       " + "".join(f"{c + 1:14d}" for c in cols))
            for i in range(c0, nb):
                out.append(f"{i + 1:7d}" + "".join(f"{mat[i][j]:14.6E}".replace("E", "D") for j in cols if j <= i))
    if "eri" in m:
        out.append(" *** Dumping Two-Electron integrals ***")
        out += ["", "", "", " ISMode= 0 Mode= 1 IBase=         1 IBasD=         1    131073",
                " DBase=         0 DBasD=         0         0 IReset=         2    131070",
                f" IntCnt=     {len(m['eri']):5d} ITotal=     34766 NWIIB=    131072 ISym2E=0"]
        for i, j, k, l, v in m["eri"]:
            out.append(f" I={i:3d} J={j:3d} K={k:3d} L={l:3d} Int=" + f"{v:20.12E}".replace("E", "D"))
        out.append(" Leave Link  316")
    out.append(" Normal termination of Gaussian 03 at Mon Jan  1 00:00:00 2000.")
    return "\n".join(out) + "\n"


# ---------------------------------------------------------------------------------------- MWFN
# Multiwfn manual, section 2.5 ".mwfn": header (Wfntype, Charge, Naelec, Nbelec, E_tot, VT_ratio), "# Atom information"
# with $Centers (index, name, atomic index, nuclear charge, x y z in angstrom), "# Basis function information"
# (Nbasis, Nindbasis, Nprims, Nshell, Nprimshell, $Shell types: 0=s 1=p 2=6d -2=5d ..., $Shell centers,
# $Shell contraction degrees, $Primitive exponents, $Contraction coefficients), "# Orbital information" with one block
# per orbital (Index, Type 0=alpha+beta 1=alpha 2=beta, Energy, Occ, Sym, $Coeff).
def write_mwfn(m):
    def reals(vals, per=5):
        return ["".join(f"{v:16.8E}" for v in vals[k:k + per]) for k in range(0, len(vals), per)]
    def ints(vals, per=10, w=6):
        return ["".join(f"{v:{w}d}" for v in vals[k:k + per]) for k in range(0, len(vals), per)]
    shells = m["shells"]       # [(type, centre(1-based), exps, coefs)]
    nprimshell = sum(len(s[2]) for s in shells)
    def nfun(t):
        l = abs(t)
        return (l + 1) * (l + 2) // 2 if t >= 0 else 2 * l + 1
    nprims = sum(len(s[2]) * ((abs(s[0]) + 1) * (abs(s[0]) + 2) // 2) for s in shells)
    out = ["# Generated by an independent writer", f"Wfntype= {m['wfntype']:3d}", f"Charge= {m['charge']:14.6f}",
           f"Naelec= {m['naelec']:14.6f}", f"Nbelec= {m['nbelec']:14.6f}", f"E_tot= {m['energy']:16.8E}", f"VT_ratio= {m['virial']:12.8f}", "",
           "# Atom information", f"Ncenter= {len(m['atoms']):8d}", "$Centers"]
    for i, (z, q, x, y, zz) in enumerate(m["atoms"]):
        out.append(f"{i + 1:6d} {NUM2SYM[z]:<2s}{z:4d} {q:5.1f} {x:15.8f} {y:15.8f} {zz:15.8f}")
    out += ["", "# Basis function information", f"Nbasis= {m['nbasis']:10d}", f"Nindbasis= {m['nbasis']:8d}", f"Nprims= {nprims:10d}",
            f"Nshell= {len(shells):10d}", f"Nprimshell= {nprimshell:7d}", "$Shell types"]
    out += ints([s[0] for s in shells], 25, 3)
    out.append("$Shell centers")
    out += ints([s[1] for s in shells], 10, 8)
    out.append("$Shell contraction degrees")
    out += ints([len(s[2]) for s in shells], 25, 4)
    out.append("$Primitive exponents")
    out += reals([e for s in shells for e in s[2]])
    out.append("$Contraction coefficients")
    out += reals([c for s in shells for c in s[3]])
    out += ["", "# Orbital information (nindbasis orbitals)", " "]
    for i, (typ, en, occ, coefs) in enumerate(m["mos"]):
        out += [f"Index= {i + 1:9d}", f"Type= {typ}", f"Energy= {en:16.8E}", f"Occ= {occ:10.6f}", "Sym= ?", "$Coeff"]
        out += reals(coefs)
        out.append(" ")
    return "\n".join(out) + "\n"


# ---------------------------------------------------------------------------------------- GAMESS punch
# (PC) GAMESS / Firefly PUNCH file as written by runtyp=optimize/hessian jobs: $DATA group (title, symmetry, per atom a line
# "name charge x y z" followed by indented basis lines, closed by " $END"), the block "COORDINATES OF SYMMETRY UNIQUE ATOMS
# (ANGS)", $GRAD group (E= line, per atom "name charge gx gy gz"), $HESS group written with FORMAT(I2,I3,1P,5E15.8): the row
# counter is printed MOD 100, each row of 3N numbers takes ceil(3N/5) lines; "ATOMIC MASSES" in amu, five per line.
def write_gamess_punch(m):
    """m: title, atoms [(Z, x, y, z) angstrom], energy, gradient (natom x 3), hessian (3N x 3N), masses (amu)."""
    out = ["$DATA", m["title"], "C1       0"]
    for z, x, y, zz in m["atoms"]:
        out.append(f"{NUM2SYM[z].upper():<10s}{float(z):5.1f}{x:18.10f}{y:18.10f}{zz:18.10f}")
        out += ["   S          1", "     1         0.5000000000  1.00000000", "           "]
    out.append(" $END      ")
    out.append("-------------------- DATA FROM NSERCH=   0 --------------------")
    out.append(" COORDINATES OF SYMMETRY UNIQUE ATOMS (ANGS)")
    out.append("   ATOM   CHARGE       X              Y              Z")
    out.append(" ------------------------------------------------------------")
    for z, x, y, zz in m["atoms"]:
        out.append(f" {NUM2SYM[z].upper():<10s}{float(z):5.1f}{x:15.10f}{y:15.10f}{zz:15.10f}")
    out.append(" $GRAD")
    out.append(f"E= {m['energy']:19.10f}  GMAX=   0.0000338  GRMS=   0.0000154")
    for (z, _x, _y, _z), g in zip(m["atoms"], m["gradient"]):
        out.append(f"{NUM2SYM[z].upper():<10s}{float(z):5.0f}.{g[0]:20.10E}{g[1]:20.10E}{g[2]:20.10E}")
    out.append(" $END")
    out.append(" $HESS")
    out.append(f"ENERGY IS {m['energy']:19.10f} E(NUC) IS      273.9207388851")
    n3 = 3 * len(m["atoms"])
    for i in range(n3):
        row = m["hessian"][i]
        for k, c0 in enumerate(range(0, n3, 5)):
            out.append(f"{(i + 1) % 100:2d}{(k + 1) % 1000:3d}" + "".join(f"{v:15.8E}" for v in row[c0:c0 + 5]))
    out.append(" $END")
    out.append("ATOMIC MASSES")
    for c0 in range(0, len(m["masses"]), 5):
        out.append("".join(f"{w:12.5f}" for w in m["masses"][c0:c0 + 5]))
    out.append("MODE    1   FREQUENCY=   2.35182 (CM**-1)")
    return "\n".join(out) + "\n"
