"""Exact real regular solid harmonics C_lm, S_lm (Racah normalisation, docs/basis.rst) as polynomials.

Independent of tools/harmonics.py (no sympy, no recursion): the closed formula of Helgaker,
Jorgensen, Olsen, "Molecular Electronic-Structure Theory", eqs. 6.4.47-6.4.50:

  S_lm = N_lm sum_{t=0}^{[(l-|m|)/2]} sum_{u=0}^{t} sum_{v} C^{lm}_{tuv}
         x^{2t+|m|-2(u+v)} y^{2(u+v)} z^{l-2t-|m|}
  C^{lm}_{tuv} = (-1)^{t+v-v_m} (1/4)^t binom(l,t) binom(l-t,|m|+t) binom(t,u) binom(|m|,2v)
  N_lm = 1/(2^{|m|} l!) sqrt(2 (l+|m|)! (l-|m|)! / 2^{delta_m0});  v_m = 0 (m>=0), 1/2 (m<0)
  v = v_m, v_m+1, ..., [(|m|/2 - v_m)] + v_m

m > 0 is the cosine-like C_lm ('c{m}'), m < 0 the sine-like S_l|m| ('s{|m|}'), m = 0 is 'c0'.
Each coefficient is returned exactly as (sign, squared value as a Fraction).
"""

from fractions import Fraction
from math import comb, factorial


def solid_harmonic(l, m):
    """dict (nx, ny, nz) -> (sign, value_squared) of the coefficient of x^nx y^ny z^nz."""
    am = abs(m)
    twice_vm = 0 if m >= 0 else 1
    rat = {}
    for t in range((l - am) // 2 + 1):
        for u in range(t + 1):
            # 2v runs over twice_vm, twice_vm+2, ... <= 2*floor(am/2 - vm) + twice_vm
            nv = (am - twice_vm) // 2
            for iv in range(nv + 1):
                twov = twice_vm + 2 * iv
                sign_exp = t + iv        # t + v - v_m
                c = Fraction((-1) ** sign_exp, 4 ** t) * comb(l, t) * comb(l - t, am + t) * comb(t, u) * comb(am, twov)
                uv2 = 2 * u + twov        # 2(u+v)
                nx = 2 * t + am - uv2
                ny = uv2
                nz = l - 2 * t - am
                if nx < 0 or c == 0:
                    continue
                rat[(nx, ny, nz)] = rat.get((nx, ny, nz), Fraction(0)) + c
    q = Fraction(2 * factorial(l + am) * factorial(l - am), 2 if m == 0 else 1)
    den = Fraction(1, (2 ** am * factorial(l)) ** 2)
    out = {}
    for p, r in rat.items():
        if r == 0:
            continue
        out[p] = (1 if r > 0 else -1, r * r * q * den)
    return out


def label_to_m(label):
    k = int(label[1:])
    return k if label[0] == "c" else -k


def dfact(n):
    r = 1
    while n > 1:
        r *= n
        n -= 2
    return r


def cart_to_pure_entry_sq(l, label, powers):
    """(sign, squared value) of the normalised-Cartesian -> normalised-pure matrix entry."""
    h = solid_harmonic(l, label_to_m(label))
    if powers not in h:
        return 0, Fraction(0)
    s, v2 = h[powers]
    nx, ny, nz = powers
    return s, v2 * Fraction(dfact(2 * nx - 1) * dfact(2 * ny - 1) * dfact(2 * nz - 1), dfact(2 * l - 1))
