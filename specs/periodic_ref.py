"""Independent periodic table (IUPAC 2016 symbols, Z = 1..118) and bond-type codes."""

SYMBOLS = (
    "H He Li Be B C N O F Ne Na Mg Al Si P S Cl Ar K Ca Sc Ti V Cr Mn Fe Co Ni Cu Zn Ga Ge As Se Br Kr "
    "Rb Sr Y Zr Nb Mo Tc Ru Rh Pd Ag Cd In Sn Sb Te I Xe Cs Ba La Ce Pr Nd Pm Sm Eu Gd Tb Dy Ho Er Tm Yb Lu "
    "Hf Ta W Re Os Ir Pt Au Hg Tl Pb Bi Po At Rn Fr Ra Ac Th Pa U Np Pu Am Cm Bk Cf Es Fm Md No Lr "
    "Rf Db Sg Bh Hs Mt Ds Rg Cn Nh Fl Mc Lv Ts Og"
).split()
assert len(SYMBOLS) == 118
NUM2SYM = {i + 1: s for i, s in enumerate(SYMBOLS)}
SYM2NUM = {s: i + 1 for i, s in enumerate(SYMBOLS)}

# CODATA 2018 / 2022 (the two releases agree to < 1e-9 relative for these):
BOHR_IN_ANGSTROM = 0.529177210903         # CODATA 2018; 2022: 0.529177210544
ANGSTROM = 1.0 / BOHR_IN_ANGSTROM          # angstrom expressed in bohr
